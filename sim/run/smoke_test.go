package run

import (
	"context"
	"encoding/binary"
	"io"
	"testing"
	"testing/synctest"
	"time"

	"github.com/IrineSistiana/mosproxy/internal/upstream"
	"github.com/IrineSistiana/mosproxy/verifsim/sim"
	"github.com/IrineSistiana/mosproxy/verifsim/vnet"
)

func TestSmoke(t *testing.T) {
	synctest.Test(t, func(t *testing.T) {
		s := sim.New(1, -1)
		w := vnet.NewWorld(s)
		l, err := w.PeerListen("tcp", "10.0.0.53:53")
		if err != nil {
			t.Fatal(err)
		}
		go func() {
			for {
				c, err := l.Accept()
				if err != nil {
					return
				}
				go func() {
					defer c.Close()
					for {
						var h [2]byte
						if _, err := io.ReadFull(c, h[:]); err != nil {
							return
						}
						b := make([]byte, binary.BigEndian.Uint16(h[:]))
						if _, err := io.ReadFull(c, b); err != nil {
							return
						}
						b[2] |= 0x80
						c.Write(append(h[:], b...))
					}
				}()
			}
		}()
		u, err := upstream.NewUpstream("tcp://10.0.0.53", upstream.Opt{})
		if err != nil {
			t.Fatal(err)
		}
		q := []byte{0x12, 0x34, 1, 0, 0, 1, 0, 0, 0, 0, 0, 0, 1, 'a', 0, 0, 1, 0, 1}
		done := false
		go func() {
			ctx, cancel := context.WithTimeout(context.Background(), 3*time.Second)
			defer cancel()
			r, err := u.ExchangeContext(ctx, q)
			t.Logf("resp=%v err=%v at %v", r != nil, err, s.Now())
			done = true
			u.Close()
			l.Close()
			s.Stop()
		}()
		s.Run(30 * time.Second)
		if !done {
			t.Fatal("not done")
		}
		s.Settle(20 * time.Second)
		t.Logf("events=%d open=%v", s.Events(), w.OpenEndpoints(vnet.OwnerProxy))
		for _, l := range s.LogLines() {
			t.Log(l)
		}
	})
}
