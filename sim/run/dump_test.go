package run

import (
	"os"
	"runtime"
	"testing"
)

func TestDumpGoroutines(t *testing.T) {
	if os.Getenv("SIM_DUMP") == "" {
		t.Skip()
	}
	buf := make([]byte, 1<<20)
	n := runtime.Stack(buf, true)
	os.Stdout.Write(buf[:n])
}
