package run

import (
	"encoding/json"
	"fmt"
	"github.com/IrineSistiana/mosproxy/verifsim/peers"
	"os"
	"path/filepath"
	"runtime"
	"strconv"
	"testing"
	"testing/cryptotest"
	"time"

	"github.com/IrineSistiana/mosproxy/verifsim/gen"
	"github.com/IrineSistiana/mosproxy/verifsim/plan"
	"github.com/IrineSistiana/mosproxy/verifsim/scen"
)

// TestSim executes one simulated run.  Environment:
//
//	SIM_MODE   genrun (default) | run | gen
//	SIM_SEED, SIM_FOCUS, SIM_ARM   (genrun, gen)
//	SIM_PLAN   plan file (run)
//	SIM_OUT    where the result (or the plan, in gen mode) is written
//	SIM_LOG    number of event-log lines to keep in the result (-1 = all)
func TestSim(t *testing.T) {
	mode := os.Getenv("SIM_MODE")
	if mode == "" {
		if os.Getenv("SIM_SEED") == "" && os.Getenv("SIM_PLAN") == "" {
			t.Skip("no SIM_SEED / SIM_PLAN")
		}
		mode = "genrun"
	}
	out := os.Getenv("SIM_OUT")
	keep, _ := strconv.Atoi(os.Getenv("SIM_LOG"))
	var p *plan.Plan
	if mode == "run" {
		b, err := os.ReadFile(os.Getenv("SIM_PLAN"))
		if err != nil {
			t.Fatal(err)
		}
		p = new(plan.Plan)
		if err := json.Unmarshal(b, p); err != nil {
			t.Fatal(err)
		}
	} else {
		seed, err := strconv.ParseUint(os.Getenv("SIM_SEED"), 10, 64)
		if err != nil {
			t.Fatal("bad SIM_SEED")
		}
		p = gen.Generate(seed, os.Getenv("SIM_FOCUS"), os.Getenv("SIM_ARM"))
	}
	write := func(v any) {
		b, _ := json.Marshal(v)
		if out == "" {
			os.Stdout.Write(append(b, '\n'))
			return
		}
		if err := os.WriteFile(out, b, 0o644); err != nil {
			t.Fatal(err)
		}
	}
	if mode == "gen" {
		write(p)
		return
	}
	if os.Getenv("SIM_STACKDUMP") != "" {
		go func() {
			for i := 0; i < 3; i++ {
				time.Sleep(4 * time.Second)
				buf := make([]byte, 1<<20)
				n := runtime.Stack(buf, true)
				os.Stderr.Write(buf[:n])
				os.Stderr.WriteString("\n=====DUMP=====\n")
			}
		}()
	}
	// The process's system trust store holds exactly one root, the harness's
	// "other" CA: "verification against the system roots" then has an outcome
	// that differs from verification against a configured CA (C17).  It has
	// to be in place before anything loads the system pool.
	rootsFile := filepath.Join(os.TempDir(), fmt.Sprintf("verifsim-sysroots-%d.pem", os.Getpid()))
	if err := os.WriteFile(rootsFile, peers.NewPKI().OtherCAPEM, 0o600); err == nil {
		os.Setenv("SSL_CERT_FILE", rootsFile)
		os.Setenv("SSL_CERT_DIR", filepath.Join(os.TempDir(), "verifsim-no-such-dir"))
		defer os.Remove(rootsFile)
	}
	cryptotest.SetGlobalRandom(t, p.Seed)
	res := scen.Run(t, p, keep)
	write(res)
}
