package gen
