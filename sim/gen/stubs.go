package gen

import "github.com/IrineSistiana/mosproxy/verifsim/plan"

func genLimiter(r *rng, seed uint64) *plan.Plan {
	return &plan.Plan{Version: 1, Seed: seed, Family: "limiter", Focus: "C15", Arm: "unit"}
}

func genAddr(r *rng, seed uint64) *plan.Plan {
	return &plan.Plan{Version: 1, Seed: seed, Family: "addr", Focus: "C17", Arm: "addr"}
}

func genAuth(r *rng, seed uint64) *plan.Plan {
	return &plan.Plan{Version: 1, Seed: seed, Family: "auth", Focus: "C17", Arm: "auth"}
}
