package gen

import "github.com/IrineSistiana/mosproxy/verifsim/plan"

func genXport(r *rng, seed uint64, focus, arm string) *plan.Plan {
	return &plan.Plan{Version: 1, Seed: seed, Family: "xport", Focus: focus, Arm: arm}
}

func genLimiter(r *rng, seed uint64) *plan.Plan {
	return &plan.Plan{Version: 1, Seed: seed, Family: "limiter", Focus: "C15", Arm: "unit"}
}
