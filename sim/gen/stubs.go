package gen

import "github.com/IrineSistiana/mosproxy/verifsim/plan"

func genLimiter(r *rng, seed uint64) *plan.Plan {
	return &plan.Plan{Version: 1, Seed: seed, Family: "limiter", Focus: "C15", Arm: "unit"}
}
