package gen

import (
	"fmt"

	"github.com/IrineSistiana/mosproxy/verifsim/plan"
)

func genLimiter(r *rng, seed uint64) *plan.Plan {
	p := &plan.Plan{Version: 1, Seed: seed, Family: "limiter", Focus: "C15", Arm: "unit"}
	lp := &plan.LimiterPlan{}
	p.Limiter = lp
	lp.Spec.Limit = []int{1, 2, 5, 20, 100}[r.intn(5)]
	lp.Spec.Burst = []int{0, 1, 5, 50, 200}[r.intn(5)]
	lp.Spec.V4Mask = []int{0, 0, 8, 16, 24, 32, 33, -1}[r.intn(8)]
	lp.Spec.V6Mask = []int{0, 0, 32, 48, 56, 64, 128, 200}[r.intn(8)]
	var addrs []string
	for i := 0; i < r.rng(2, 8); i++ {
		switch r.intn(5) {
		case 0, 1:
			addrs = append(addrs, fmt.Sprintf("%d.%d.%d.%d", []int{10, 192, 198}[r.intn(3)], r.intn(3), r.intn(3), r.intn(256)))
		case 2:
			addrs = append(addrs, fmt.Sprintf("::ffff:%d.%d.%d.%d", []int{10, 192}[r.intn(2)], r.intn(3), r.intn(3), r.intn(256)))
		default:
			addrs = append(addrs, fmt.Sprintf("2001:db8:%x:%x::%x", r.intn(3), r.intn(3)<<8, r.intn(65536)))
		}
	}
	t := int64(1000)
	n := r.rng(50, 400)
	for i := 0; i < n; i++ {
		switch r.intn(10) {
		case 0:
			t += r.i64(1_000_000, 30_000_000) // idle seconds
		case 1:
			t += r.i64(45_000_000, 200_000_000) // idle minutes (bucket garbage collection)
		case 2, 3:
			t += r.i64(10_000, 300_000)
		default:
			t += r.i64(0, 5000) // burst
		}
		lp.Events = append(lp.Events, plan.LimEvent{AtUs: t, Addr: addrs[r.intn(len(addrs))], N: []int{1, 1, 2, 3, 15}[r.intn(5)]})
	}
	// concurrent first contacts
	for b := 0; b < r.rng(1, 6); b++ {
		t += r.i64(100_000, 200_000_000)
		addr := fmt.Sprintf("%d.1.1.1", 50+b)
		if r.p(0.3) {
			addr = fmt.Sprintf("2a%02x:1::1", b)
		}
		if b > 0 && r.p(0.3) {
			addr = lp.Bursts[r.intn(len(lp.Bursts))].Addr // a subnet seen before, maybe minutes ago
		}
		lp.Bursts = append(lp.Bursts, plan.LimBurst{AtUs: t, Addr: addr, K: r.rng(2, 12), N: []int{1, 1, 2, 3}[r.intn(4)]})
	}
	p.Knobs.YieldDensity = []float64{0.3, 0.6, 0.9}[r.intn(3)]
	return p
}
