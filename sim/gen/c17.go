package gen

import "github.com/IrineSistiana/mosproxy/verifsim/plan"

var (
	addrSchemes   = []string{"", "udp", "tcp", "tcp+pipeline", "tls", "tls+pipeline", "https", "http", "quic", "h3"}
	addrHostForms = []string{"ip4", "ip6", "ip6upper", "ip6long", "name"}
	addrDialForms = []string{"", "ip4", "ip4port", "ip6port", "ip6bare", "name", "nameport", "unix"}
)

// AddrProduct is the size of the enumerated space of C17 (a).
func AddrProduct() int { return len(addrSchemes) * len(addrHostForms) * 2 * len(addrDialForms) }

func genAddr(r *rng, seed uint64) *plan.Plan {
	p := &plan.Plan{Version: 1, Seed: seed, Family: "addr", Focus: "C17", Arm: "addr"}
	// every run covers a contiguous slice of the product, so that a batch of
	// runs enumerates it completely; the slice start comes from the seed
	total := AddrProduct()
	start := int(seed % uint64(total))
	n := 24
	for i := 0; i < n; i++ {
		k := (start + i) % total
		c := plan.AddrCase{Idx: i}
		c.Scheme = addrSchemes[k%len(addrSchemes)]
		k /= len(addrSchemes)
		c.HostForm = addrHostForms[k%len(addrHostForms)]
		k /= len(addrHostForms)
		if k%2 == 1 {
			c.Port = 1000 + r.intn(50000)
		}
		k /= 2
		c.DialForm = addrDialForms[k%len(addrDialForms)]
		switch c.DialForm {
		case "ip4port", "ip6port", "nameport":
			c.DialPort = 1000 + r.intn(50000)
		case "unix":
			if c.Scheme == "" || c.Scheme == "udp" || c.Scheme == "quic" || c.Scheme == "h3" {
				c.DialForm = "ip4" // '@' is for stream-based upstreams only
			}
		}
		c.DialDown = c.DialForm != "" && r.p(0.2)
		p.Addr = append(p.Addr, c)
	}
	return p
}

func genAuth(r *rng, seed uint64) *plan.Plan {
	p := &plan.Plan{Version: 1, Seed: seed, Family: "auth", Focus: "C17", Arm: "auth"}
	kinds := []string{"tls", "tls+pipeline", "https", "quic", "h3"}
	profiles := []string{"good", "wrongname", "otherca", "expired", "notyet", "selfsigned"}
	options := []string{"ca", "none", "skip"}
	total := len(kinds) * len(profiles) * len(options) * 2
	start := int(seed % uint64(total))
	for i := 0; i < 12; i++ {
		k := (start + i) % total
		c := plan.AuthCase{Idx: i}
		c.Kind = kinds[k%len(kinds)]
		k /= len(kinds)
		c.Profile = profiles[k%len(profiles)]
		k /= len(profiles)
		c.Option = options[k%len(options)]
		k /= len(options)
		c.ByName = k%2 == 1
		p.Auth = append(p.Auth, c)
	}
	return p
}
