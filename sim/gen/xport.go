package gen

import (
	"fmt"

	"github.com/IrineSistiana/mosproxy/verifsim/plan"
	"github.com/IrineSistiana/mosproxy/verifsim/refdns"
)

func upSpec(r *rng, i int, kind string) plan.UpstreamSpec {
	u := plan.UpstreamSpec{Tag: fmt.Sprintf("up%d", i), Kind: kind, Host: fmt.Sprintf("10.1.0.%d", 10+i)}
	host := u.Host
	byName := r.p(0.3)
	if byName {
		host = fmt.Sprintf("up%d.upstream.test", i)
	}
	defPort := map[string]int{"udp": 53, "tcp": 53, "tcp+pipeline": 53, "tls": 853, "tls+pipeline": 853, "https": 443, "http": 80, "quic": 853, "h3": 443}[kind]
	u.Port = defPort
	addr := host
	if r.p(0.4) {
		u.Port = 1000 + r.intn(5000)
		addr = fmt.Sprintf("%s:%d", host, u.Port)
	}
	switch kind {
	case "udp":
		if r.p(0.3) {
			// the URL names a host where nothing listens; dial_addr is the
			// server.  Both legs (UDP and the TCP retry) have to follow it.
			ghost := fmt.Sprintf("10.1.0.%d", 200+i)
			addr = ghost
			if u.Port != defPort {
				addr = fmt.Sprintf("%s:%d", ghost, u.Port)
			}
			u.DialAddr = u.Host
			if u.Port != defPort || r.p(0.5) {
				u.DialAddr = fmt.Sprintf("%s:%d", u.Host, u.Port)
			}
		}
		if r.p(0.5) {
			u.Addr = addr
		} else {
			u.Addr = "udp://" + addr
		}
	case "https", "http", "h3":
		u.Addr = kind + "://" + addr + "/dns-query"
		u.HTTP1 = kind == "https" && r.p(0.3)
	default:
		u.Addr = kind + "://" + addr
	}
	if kind == "quic" && r.p(0.5) {
		u.QuicMaxStreams = []int{2, 3, 5}[r.intn(3)]
	}
	switch kind {
	case "tls", "tls+pipeline", "https", "quic", "h3":
		u.TLS = "good"
		u.UseCA = true
	}
	return u
}

func xCallName(tok string) [][]byte { return append([][]byte{[]byte(tok)}, labelsOf("example.com")...) }

// genXport makes a transport-family plan.
func genXport(r *rng, seed uint64, focus, arm string) *plan.Plan {
	p := &plan.Plan{Version: 1, Seed: seed, Family: "xport", Focus: focus, Arm: arm}
	xp := &plan.XportPlan{Tokens: map[string]*plan.TokenSpec{}}
	p.Xport = xp
	k := plan.Knobs{GetFill: r.intn(3)}
	if r.p(0.5) {
		k.Quarantine = 64
	}
	if r.p(0.7) {
		k.YieldDensity = []float64{0.05, 0.2, 0.5}[r.intn(3)]
		if r.p(0.4) {
			k.YieldMask = r.u64() | r.u64()
		}
		k.StallProb = []float64{0, 0.02, 0.1}[r.intn(3)]
		k.StallMaxUs = int64([]int{2000, 20_000, 200_000}[r.intn(3)])
	}
	p.Knobs = k
	xp.Net.UpLatUs = [2]int64{50, int64(r.rng(100, 30_000))}
	xp.Net.ClientLatUs = [2]int64{50, 100}

	var kinds []string
	switch focus {
	case "C05":
		kinds = []string{"udp", "tcp+pipeline", "tls+pipeline"}
	case "C06":
		kinds = []string{"tcp", "tls", "udp"}
	case "C16":
		kinds = []string{"udp"}
	default:
		kinds = []string{"udp", "tcp", "tcp+pipeline", "tls", "tls+pipeline", "https", "http", "udp", "tcp", "tcp+pipeline", "tls", "tls+pipeline", "https", "quic", "h3"}
	}
	if arm == "exhaust" {
		u := upSpec(r, 0, []string{"udp", "tcp+pipeline"}[r.intn(2)])
		xp.Upstreams = []plan.UpstreamSpec{u}
		xp.Exhaust = 65536 + r.rng(2, 40)
		xp.Net.UpLatUs = [2]int64{20, 60}
		xp.HorizonUs = 3_600_000_000
		// lock-site yields are paused during the sequential part and
		// active in the concurrent tail (scen.runExhaust)
		p.Knobs.YieldDensity, p.Knobs.StallProb, p.Knobs.YieldMask = []float64{0.1, 0.3, 0.6}[r.intn(3)], 0, 0
		return p
	}
	if focus == "C14" && arm == "stale" && r.p(0.15) {
		// a pooled pipelined connection that has answered before dies with
		// exchanges in flight (the server resets what is established and keeps
		// listening): every waiter is retried on another connection and succeeds
		u := upSpec(r, 0, []string{"tcp+pipeline", "tls+pipeline"}[r.intn(2)])
		xp.Upstreams = []plan.UpstreamSpec{u}
		xp.Net.UpLatUs = [2]int64{50, int64(r.rng(100, 2000))}
		xp.IdleMs = 0
		xp.Tokens["t0"] = &plan.TokenSpec{Ans: plan.AnswerSpec{NAn: 1, TTLs: []uint32{300}, Shape: "plain"}, Acts: []plan.UpAction{{Kind: "reply", DelayUs: r.i64(100, 2000)}}}
		xp.Calls = append(xp.Calls, plan.XCall{Idx: 0, Up: 0, AtUs: 1000, ID: uint16(r.u64()), Token: "t0", Type: 1, DeadlineUs: 6_000_000})
		hold := r.i64(200_000, 600_000)
		t1 := int64(100_000)
		for i, n := 1, r.rng(2, 40); i <= n; i++ {
			tok := fmt.Sprintf("t%d", i)
			xp.Tokens[tok] = &plan.TokenSpec{Ans: plan.AnswerSpec{NAn: 1, TTLs: []uint32{300}, Shape: "plain"}, Acts: []plan.UpAction{{Kind: "reply", DelayUs: hold}}}
			xp.Calls = append(xp.Calls, plan.XCall{Idx: i, Up: 0, AtUs: t1 + r.i64(0, 2000), ID: uint16(r.u64()), Token: tok, Type: 1, DeadlineUs: 6_000_000})
		}
		xp.ServerEvents = []plan.ServerEvent{{Up: 0, AtUs: t1 + 2000 + 4*xp.Net.UpLatUs[1] + r.i64(5_000, hold/2), Kind: "reset_all"}}
		xp.HorizonUs = 20_000_000
		if p.Knobs.YieldDensity == 0 {
			p.Knobs.YieldDensity = []float64{0.1, 0.3, 0.6}[r.intn(3)]
		}
		return p
	}
	if focus == "C14" && arm == "stale" && r.p(0.3) {
		// a burst fills the pool of a one-query-at-a-time transport with n
		// connections; the server closes them while they idle (or restarts);
		// a lone call follows.  The retry budget for reused connections is
		// finite, the number of stale connections is not.
		kind := []string{"tcp", "tls", "tcp", "udp", "quic"}[r.intn(5)]
		u := upSpec(r, 0, kind)
		xp.Upstreams = []plan.UpstreamSpec{u}
		xp.Net.UpLatUs = [2]int64{50, int64(r.rng(100, 3000))}
		xp.IdleMs = []int{0, 0, 0, 300, 2000}[r.intn(5)]
		n := r.rng(2, 16)
		hold := r.i64(4*xp.Net.UpLatUs[1]+2000, 60_000)
		for i := 0; i < n; i++ {
			tok := fmt.Sprintf("t%d", i)
			c := plan.XCall{Idx: i, Up: 0, AtUs: r.i64(1000, 1400), ID: uint16(r.u64()), Token: tok, Type: 1, DeadlineUs: 6_000_000}
			t := &plan.TokenSpec{Ans: plan.AnswerSpec{NAn: 1, TTLs: []uint32{300}, Shape: "plain"}, Acts: []plan.UpAction{{Kind: "reply", DelayUs: hold}}}
			if kind == "udp" {
				// every exchange takes the TCP leg
				t.Acts = []plan.UpAction{{Kind: "truncate_udp", DelayUs: 100}, {Kind: "reply", DelayUs: hold}}
			}
			xp.Tokens[tok] = t
			xp.Calls = append(xp.Calls, c)
		}
		ev := 1400 + hold + 8*xp.Net.UpLatUs[1] + r.i64(10_000, 3_000_000)
		xp.ServerEvents = []plan.ServerEvent{{Up: 0, AtUs: ev, Kind: []string{"close_idle_conns", "close_idle_conns", "crash_restart"}[r.intn(3)]}}
		if kind == "quic" {
			// the one shared connection is closed by the server while idle, with
			// notice (a crash would only show at the 30 s idle time-out)
			xp.ServerEvents[0].Kind = "close_idle_conns"
			xp.IdleMs = 0
		}
		for i := 0; i < r.rng(1, 3); i++ {
			tok := fmt.Sprintf("t%d", n+i)
			c := plan.XCall{Idx: n + i, Up: 0, AtUs: ev + r.i64(1_200_000, 6_000_000) + int64(i)*3_000_000, ID: uint16(r.u64()), Token: tok, Type: 1, DeadlineUs: 6_000_000}
			t := &plan.TokenSpec{Ans: plan.AnswerSpec{NAn: 1, TTLs: []uint32{300}, Shape: "plain"}, Acts: []plan.UpAction{{Kind: "reply", DelayUs: r.i64(50, 5000)}}}
			if kind == "udp" {
				t.Acts = []plan.UpAction{{Kind: "truncate_udp", DelayUs: 100}, {Kind: "reply", DelayUs: r.i64(50, 5000)}}
			}
			xp.Tokens[tok] = t
			xp.Calls = append(xp.Calls, c)
		}
		xp.HorizonUs = ev + 30_000_000
		return p
	}
	if focus == "C05" && arm == "clean" && r.p(0.08) {
		// one reply is slow while a whole window's worth of further exchanges
		// (64 on a pipelined stream, 4096 on a udp socket - the transports' limits
		// of concurrent queries) passes through the same connection; exchanges
		// whose wire ids differ from the slow one's by a multiple of the window
		// are waiting when the slow reply arrives.  Whatever the transport keys
		// its waiters by, that reply belongs to the slow exchange alone.
		kind := []string{"tcp+pipeline", "tls+pipeline", "tcp+pipeline", "tls+pipeline", "tcp+pipeline", "tls+pipeline", "tcp+pipeline", "udp"}[r.intn(8)]
		window := 64
		slow := r.i64(250_000, 600_000)
		if kind == "udp" {
			window, slow = 4096, r.i64(1_500_000, 2_500_000)
		}
		xp.Upstreams = []plan.UpstreamSpec{upSpec(r, 0, kind)}
		xp.Net.UpLatUs = [2]int64{20, 60}
		xp.Net.UpSegMode = 0
		p.Knobs.StallProb = 0
		total := window*r.rng(1, 2) + r.rng(1, 6)
		if kind == "udp" {
			total = window + r.rng(1, 6)
		}
		gap := (slow - 60_000) / int64(total)
		for i := 0; i <= total; i++ {
			tok := fmt.Sprintf("t%d", i)
			c := plan.XCall{Idx: i, Up: 0, AtUs: 1000 + int64(i)*gap, ID: uint16(r.u64()), Token: tok, Type: 1, DeadlineUs: 6_000_000}
			t := &plan.TokenSpec{Ans: plan.AnswerSpec{NAn: 1, TTLs: []uint32{300}, Shape: "plain"}, Acts: []plan.UpAction{{Kind: "reply", DelayUs: r.i64(50, 300)}}}
			switch {
			case i == 0:
				t.Acts[0].DelayUs = slow
			case i%window == 0:
				// waits across the instant the slow reply arrives
				t.Acts[0].DelayUs = slow - int64(i)*gap + r.i64(20_000, 150_000)
			}
			xp.Tokens[tok] = t
			xp.Calls = append(xp.Calls, c)
		}
		xp.HorizonUs = slow + 10_000_000
		return p
	}
	nu := r.rng(1, 2)
	for i := 0; i < nu; i++ {
		xp.Upstreams = append(xp.Upstreams, upSpec(r, i, kinds[r.intn(len(kinds))]))
	}
	if r.p(0.5) {
		xp.Net.UpSegMode = r.intn(4)
	}
	xp.IdleMs = []int{0, 0, 50, 300, 2000}[r.intn(5)]

	nc := r.rng(2, 40)
	if focus == "C05" {
		nc = r.rng(2, 64)
	}
	span := int64([]int{20_000, 200_000, 3_000_000, 15_000_000}[r.intn(4)])
	for i := 0; i < nc; i++ {
		up := r.intn(nu)
		kind := xp.Upstreams[up].Kind
		tok := fmt.Sprintf("t%d", i)
		c := plan.XCall{Idx: i, Up: up, AtUs: r.i64(1000, span), ID: uint16(r.u64()), Token: tok, Type: []uint16{1, 28, 16}[r.intn(3)]}
		c.DeadlineUs = []int64{1000, 20_000, 300_000, 2_000_000, 6_000_000, 8_000_000}[r.intn(6)]
		if r.p(0.25) {
			c.CancelUs = r.i64(100, c.DeadlineUs)
		}
		if r.p(0.1) {
			// the caller gives up almost at once: between the transport's last
			// look at the context and its first write
			c.CancelUs = r.i64(1, 300)
		}
		t := &plan.TokenSpec{Ans: plan.AnswerSpec{NAn: r.rng(1, 3), TTLs: []uint32{300}, Shape: "plain", Compress: r.intn(3)}}
		if r.p(0.2) {
			t.Ans.PadTo = []int{600, 1500, 5000, 20000}[r.intn(4)]
			if kind == "udp" && t.Ans.PadTo > 3500 {
				// (a datagram of up to 4096 octets is taken as it comes,
				// whatever size the query advertised)
				t.Ans.PadTo = []int{1500, 2100, 2600, 3300, 3900}[r.intn(5)]
			}
		}
		delay := r.i64(50, []int64{2000, 50_000, 1_000_000, 7_000_000}[r.intn(4)])
		act := plan.UpAction{Kind: "reply", DelayUs: delay}
		multiplexed := kind == "udp" || kind == "tcp+pipeline" || kind == "tls+pipeline"
		switch focus {
		case "C05":
			switch r.intn(10) {
			case 0:
				act.Kind = "reply_twice"
				act.Arg = r.intn(200)
			case 1:
				act.Kind = "wrong_id"
				act.Arg = r.intn(3)
			case 2:
				act.Kind = "silent"
			case 3:
				act.Kind = "reply_many"
				act.Arg = r.rng(3, 6)
			case 5:
				if kind == "udp" {
					// truncated over UDP, and the TCP leg fails: the caller gets
					// an error, not some message
					t.Acts = []plan.UpAction{{Kind: "truncate_udp", DelayUs: r.i64(50, 5000), Arg: r.intn(4)}, {Kind: []string{"fin", "rst", "silent", "half_frame"}[r.intn(4)], DelayUs: r.i64(50, 20_000), Arg: r.intn(40)}}
				}
			case 7:
				if (kind == "tcp+pipeline" || kind == "tls+pipeline") && xp.IdleMs > 0 && xp.IdleMs <= 300 {
					// the reply stalls inside its frame for longer than the idle time-out
					act.Kind = "stall_frame"
					act.Arg = xp.IdleMs + r.rng(50, 300)
					t.Ans.PadTo, t.Ans.NAn = 0, 1
				}
			case 6:
				if kind == "udp" {
					// truncated over UDP, answered over TCP: the caller gets the TCP
					// answer under its own id
					t.Acts = []plan.UpAction{{Kind: "truncate_udp", DelayUs: r.i64(50, 5000), Arg: r.intn(4)}, {Kind: "reply", DelayUs: r.i64(50, 20_000)}}
				}
			case 4:
				// the answer cut short (its counts promise more than follows):
				// what lies behind it in the read buffer is not part of it
				act.Kind = "garbage"
				act.Arg = 2 + r.intn(1000)
			}
		case "C06":
			if kind == "udp" && r.p(0.6) {
				// the TCP leg of a truncated UDP reply is a one-query-at-a-time connection too
				t.Acts = []plan.UpAction{{Kind: "truncate_udp", DelayUs: r.i64(50, 2000), Arg: r.intn(2)}, {Kind: "reply", DelayUs: delay}}
				break
			}
			// one reply per query is the precondition; vary timing only, plus aborts
			switch r.intn(12) {
			case 0:
				act.Kind = "fin"
			case 1:
				act.Kind = "rst"
			case 2:
				act.Kind = "half_frame"
				act.Arg = r.intn(40)
			case 3:
				act.Kind = "silent"
			case 4:
				// one reply per query, but this one is a frame too short to be a
				// message (its body may look like frames of its own); the proper
				// answer follows on the retry
				act.Kind = "garbage"
				act.Raw = [][]byte{{0, 0}, {0, 2, 0, 0}, {0, 1, 0}, {0, 0, 0, 0, 0, 0}, r.bytes(r.rng(1, 11))}[r.intn(5)]
			}
		case "C16":
			if r.p(0.6) {
				t.Acts = []plan.UpAction{{Kind: "truncate_udp", DelayUs: delay, Arg: r.intn(4)}}
				t.Ans.NAn = r.rng(1, 6)
				k2 := []string{"reply", "reply", "reply", "silent", "fin", "rst"}[r.intn(6)]
				d2 := r.i64(50, 300_000)
				if k2 == "reply" && r.p(0.15) {
					d2 = r.i64(6_050_000, 7_000_000) // later than the TCP leg's 6 s I/O limit
				}
				t.Acts = append(t.Acts, plan.UpAction{Kind: k2, DelayUs: d2})
				if r.p(0.15) {
					// the TCP answer carries TC itself (records and all): it is
					// the outcome all the same
					t.Ans.Bits |= refdns.BitTC
				}
				if r.p(0.2) {
					// what only the TCP leg can carry: an answer of many KiB
					// whose late names are compressed against each other
					t.Ans.Shape, t.Ans.Compress = "late", r.rng(1, 3)
					t.Ans.PadTo = []int{8300, 9000, 12500, 16000, 20000, 40000}[r.intn(6)]
				}
			}
		case "C18x":
			if kind == "udp" && r.p(0.5) {
				// the TCP leg of a udp upstream has connections of its own
				// (idle ones, and exchanges in flight when Close comes)
				t.Acts = []plan.UpAction{{Kind: "truncate_udp", DelayUs: r.i64(50, 2000), Arg: r.intn(2)}, {Kind: "reply", DelayUs: delay}}
			}
		case "C14":
			if arm == "faults" {
				switch r.intn(9) {
				case 0:
					act.Kind = "silent"
				case 1:
					act.Kind = "fin"
				case 2:
					act.Kind = "rst"
				case 3:
					act.Kind = "half_frame"
					act.Arg = r.intn(40)
				case 4:
					act.Kind = "garbage"
					act.Raw = r.bytes(r.rng(0, 11))
					act.Arg = r.intn(2)
				}
			}
		}
		_ = multiplexed
		if len(t.Acts) == 0 {
			t.Acts = []plan.UpAction{act}
			if act.Kind != "reply" && r.p(0.5) {
				t.Acts = append(t.Acts, plan.UpAction{Kind: "reply", DelayUs: r.i64(50, 20_000)})
			}
		}
		xp.Tokens[tok] = t
		xp.Calls = append(xp.Calls, c)
	}
	// server-side events and network faults
	if focus == "C14" || focus == "C18x" || focus == "C06" {
		for n := r.intn(3); n > 0; n-- {
			xp.ServerEvents = append(xp.ServerEvents, plan.ServerEvent{Up: r.intn(nu), AtUs: r.i64(1000, span), Kind: []string{"close_idle_conns", "reset_all", "close_idle_conns", "crash_restart"}[r.intn(4)]})
		}
	}
	if focus == "C16" {
		// the TCP leg's pooled connection goes stale between two truncated replies
		for n := r.intn(4); n > 0; n-- {
			xp.ServerEvents = append(xp.ServerEvents, plan.ServerEvent{Up: r.intn(nu), AtUs: r.i64(1000, span), Kind: "close_idle_conns"})
		}
	}
	if focus == "C14" && r.p(0.2) {
		// a udp server that is gone for a few seconds, with "port unreachable"
		// coming back for every datagram: exchanges during that time fail at once
		for ui, u := range xp.Upstreams {
			if u.Kind != "udp" {
				continue
			}
			xp.Net.ICMP = true
			xp.Net.UpDrop, xp.Net.UpDup = 0, 0
			at := r.i64(5_000, span)
			down := r.rng(3000, 9000)
			var keep []plan.ServerEvent
			for _, e := range xp.ServerEvents {
				if e.Up != ui {
					keep = append(keep, e)
				}
			}
			xp.ServerEvents = append(keep, plan.ServerEvent{Up: ui, AtUs: at, Kind: "down", DownMs: down})
			for n := r.rng(2, 5); n > 0; n-- {
				i := len(xp.Calls)
				tok := fmt.Sprintf("t%d", i)
				xp.Tokens[tok] = &plan.TokenSpec{Ans: plan.AnswerSpec{NAn: 1, TTLs: []uint32{300}, Shape: "plain"}, Acts: []plan.UpAction{{Kind: "reply", DelayUs: r.i64(50, 5000)}}}
				xp.Calls = append(xp.Calls, plan.XCall{Idx: i, Up: ui, AtUs: at + r.i64(20_000, int64(down)*1000-2_100_000), ID: uint16(r.u64()), Token: tok, Type: 1, DeadlineUs: []int64{3_000_000, 5_000_000, 6_000_000}[r.intn(3)]})
			}
			break
		}
	}
	if focus == "C14" && arm == "faults" {
		if r.p(0.3) {
			xp.Net.Connect = map[string]string{xp.Upstreams[r.intn(nu)].Tag: []string{"refuse", "blackhole"}[r.intn(2)]}
		}
		if r.p(0.3) {
			from := r.i64(0, span)
			xp.Net.Partitions = []plan.Partition{{Host: xp.Upstreams[r.intn(nu)].Host, FromUs: from, ToUs: from + r.i64(10_000, 8_000_000)}}
		}
		if r.p(0.3) {
			xp.Net.UpDrop, xp.Net.UpDup = []float64{0.05, 0.3}[r.intn(2)], []float64{0, 0.1}[r.intn(2)]
		}
	}
	if focus == "C05" && r.p(0.4) {
		// pooled buffers keep their contents, as shipped
		p.Knobs.NoPoison, p.Knobs.Quarantine, p.Knobs.GetFill = true, 0, 0
	}
	if focus == "C05" && r.p(0.5) {
		xp.Net.UpDrop, xp.Net.UpDup = []float64{0, 0.05, 0.2}[r.intn(3)], []float64{0, 0.1, 0.3}[r.intn(3)]
	}
	if focus == "C18x" {
		for i := 0; i < nu; i++ {
			if !r.p(0.85) {
				continue
			}
			at := r.i64(0, span+100_000)
			// most of the time right after a call on this upstream started: while its
			// dial / handshake / exchange is in flight
			var mine []plan.XCall
			for _, c := range xp.Calls {
				if c.Up == i {
					mine = append(mine, c)
				}
			}
			if len(mine) > 0 && r.p(0.75) {
				at = mine[r.intn(len(mine))].AtUs + r.i64(0, 3*xp.Net.UpLatUs[1]+200)
				if xp.Upstreams[i].Kind == "udp" && r.p(0.5) {
					// later: while the TCP leg is dialling or waiting
					at += r.i64(0, 6*xp.Net.UpLatUs[1]+2500)
				}
			}
			xp.Closes = append(xp.Closes, plan.XClose{Up: i, AtUs: at, Twice: r.p(0.6)})
		}
	}
	xp.HorizonUs = span + 10_000_000
	_ = refdns.TypeA
	return p
}
