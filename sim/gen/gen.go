// Package gen turns a seed into a plan.  It runs before the bubble is
// entered and is the only consumer of the seed's PRNG stream; everything that
// happens during the run derives from hash(seed, structural id, counter).
package gen

import (
	"fmt"
	"sort"
	"strconv"
	"strings"

	"github.com/IrineSistiana/mosproxy/verifsim/plan"
	"github.com/IrineSistiana/mosproxy/verifsim/refdns"
)

type rng struct{ s uint64 }

func (r *rng) u64() uint64 {
	r.s += 0x9e3779b97f4a7c15
	x := r.s
	x = (x ^ (x >> 30)) * 0xbf58476d1ce4e5b9
	x = (x ^ (x >> 27)) * 0x94d049bb133111eb
	return x ^ (x >> 31)
}
func (r *rng) intn(n int) int {
	if n <= 1 {
		return 0
	}
	return int(r.u64() % uint64(n))
}
func (r *rng) rng(lo, hi int) int     { return lo + r.intn(hi-lo+1) }
func (r *rng) i64(lo, hi int64) int64 { return lo + int64(r.u64()%uint64(hi-lo+1)) }
func (r *rng) p(p float64) bool       { return float64(r.u64()>>11)/float64(1<<53) < p }
func (r *rng) pick(s []string) string { return s[r.intn(len(s))] }
func (r *rng) bytes(n int) []byte {
	b := make([]byte, n)
	for i := range b {
		b[i] = byte(r.u64() >> 13)
	}
	return b
}

// Profile tunes the router-family generator for one property.
type Profile struct {
	Listeners    []string
	NListeners   [2]int
	UpKinds      []string
	NUpstreams   [2]int
	NConns       [2]int
	OpsPerConn   [2]int
	SpanUs       int64  // ops are spread over [10ms, SpanUs]
	Cache        string // off | tiny | ample | mix
	RichRules    bool
	OddQueries   float64 // probability of unsupported query shapes
	EDNSProb     float64
	EDNSOptions  bool
	FailActs     float64  // probability that a token's upstream behaviour is a failure
	FailKinds    []string // the failures FailActs chooses from (default: all)
	MixedActs    float64  // first attempts fail, later succeed
	TCAnswers    float64  // the upstream's own answer carries the TC flag (records and all)
	Garbage      float64  // probability that an op is garbage
	GarbageReply float64
	// HugeAnswers: answers at the 64 KiB boundary (upstreams are stream kinds then).
	HugeAnswers float64
	// DupReply: the upstream sends its reply three to six times back to back.
	DupReply float64
	// LateReply: the reply comes after the transports' 6 s I/O limit (it is
	// then a reply nobody waits for any more, on a connection that must not
	// be used again).
	LateReply float64
	// OddHdr: a reply whose header carries another opcode, RA=0, a flipped RD
	// or QR=0.
	OddHdr float64
	// LongLived: share of stream connections that are used for longer than
	// the listener's idle time-out without ever being idle.
	LongLived   float64
	Shapes      []string
	BigAnswers  float64
	DelayUs     [2]int64
	RepeatToken float64 // probability that an op reuses an earlier token (cache hits)
	Seg         bool
	Yields      bool
	GC          bool
	ECS         float64
	IpMarker    float64
	TTLs        string // normal | edge
	Limiter     bool
	LingerUs    int64
	Unix        float64
	Overload    bool
	UpFaultNet  bool // loss/dup on upstream datagram links
	OptInReply  float64
	Compress    bool
	Rcodes      bool
	Classes     bool
	LongNames   float64 // probability that a new query name is filled up to (or to within a few octets of) the 255-octet limit; half of the fillers need escaping in the text form
}

var allListeners = []string{"udp", "udp", "tcp", "tcp", "gnet", "gnet", "tls", "tls", "http", "fasthttp", "https", "https", "quic"}
var allUpKinds = []string{"udp", "udp", "tcp", "tcp", "tcp+pipeline", "tcp+pipeline", "tls", "tls", "tls+pipeline", "tls+pipeline", "https", "https", "http", "quic", "h3"}

func baseProfile() Profile {
	return Profile{
		Listeners: allListeners, NListeners: [2]int{1, 3}, UpKinds: allUpKinds, NUpstreams: [2]int{1, 3},
		NConns: [2]int{2, 6}, OpsPerConn: [2]int{1, 5}, SpanUs: 1_500_000, Cache: "mix", EDNSProb: 0.5,
		Shapes: []string{"plain", "plain", "mixed"}, DelayUs: [2]int64{100, 30_000}, LingerUs: 8_000_000,
		ECS: 0.4, IpMarker: 0.2, TTLs: "normal", Compress: true, LongNames: 0.04,
	}
}

// ProfileFor returns the generator profile of a property and arm.
func ProfileFor(focus, arm string) Profile {
	p := baseProfile()
	switch focus {
	case "C01":
		p.Garbage, p.GarbageReply, p.OddQueries = 0.5, 0.3, 0.1
		p.DupReply = 0.15
		p.LongNames = 0.1
		// connections that end without a reply (or with half of one): to a DoH
		// transport that is a round trip that fails
		p.FailActs = 0.1
		// (not half a frame: on a multiplexed connection nothing can follow it,
		// and the probes would share that connection)
		p.FailKinds = []string{"fin", "rst", "silent"}
		p.RichRules = true
		p.NUpstreams = [2]int{1, 3}
		p.NConns, p.OpsPerConn = [2]int{4, 10}, [2]int{1, 6}
		p.Seg = true
		p.SpanUs = 3_000_000
	case "C02":
		p.Shapes = []string{"binary", "suffix", "srv", "unknown", "mixed", "mixed", "late"}
		p.BigAnswers = 0.25
		p.OptInReply, p.Rcodes = 0.3, true
		p.Classes = true
		if arm == "garbage" {
			// malformed replies and queries between the valid ones: what a
			// failed decode leaves behind must not leak into later messages
			p.GarbageReply, p.Garbage = 0.25, 0.15
			p.NConns, p.OpsPerConn = [2]int{4, 12}, [2]int{2, 8}
			p.SpanUs = 300_000
			p.DelayUs = [2]int64{100, 100_000}
		}
	case "C03":
		p.OddQueries = 0.35
		p.OddHdr = 0.15
		p.LongNames = 0.08
		// the same name asked again, also in another class or the neighbouring
		// type, with a cache in between: the response has to carry the question
		// that was asked
		p.RepeatToken = 0.15
		p.Classes = true
		p.LongLived = 0.15
		p.Shapes = []string{"plain", "plain", "mixed", "tight"}
		p.HugeAnswers = 0.1
		p.RichRules = true
		if arm == "faults" {
			p.FailActs, p.MixedActs, p.GarbageReply = 0.35, 0.15, 0.1
			p.DupReply = 0.05
			p.UpFaultNet = true
		} else {
			// every way of cutting the byte streams, on both sides of the proxy
			p.Seg = true
		}
		p.Rcodes = true
	case "C04", "C20":
		p.NConns, p.OpsPerConn = [2]int{8, 24}, [2]int{2, 8}
		if focus == "C20" {
			p.FailActs, p.MixedActs, p.Garbage = 0.15, 0.1, 0.05
		}
		p.SpanUs = 400_000
		p.DelayUs = [2]int64{100, 200_000}
		p.Cache = "mix"
		p.RepeatToken = 0.3
		p.Yields, p.GC, p.Seg = true, true, true
		p.Shapes = []string{"plain", "mixed", "binary"}
		if focus == "C04" {
			// answers the proxy makes itself (NOTIMP) between the forwarded ones
			p.OddQueries = 0.08
			// replies cut short (the retry's proper answer follows): what lies
			// behind a short datagram in a pooled read buffer is another answer
			p.GarbageReply = 0.08
		}
		if arm == "late" {
			p.LateReply = 0.15
			p.SpanUs = 9_000_000
			p.Cache = "off"
			// answers at the 64 KiB boundary: what does not fit a frame must not
			// spill into the next one
			p.HugeAnswers = 0.3
			p.Shapes = []string{"plain", "mixed", "binary", "tight"}
		}
	case "C09":
		p.HugeAnswers = 0.05
		p.Shapes = []string{"plain", "mixed", "tight", "tight"}
		p.BigAnswers = 0.7
		p.EDNSProb = 0.7
		p.OptInReply = 0.5
		p.Listeners = []string{"udp", "udp", "tcp", "gnet", "https", "http"}
		p.TCAnswers = 0.08
	case "C15":
		p.Listeners = []string{"udp", "udp", "tcp", "http", "gnet", "tls", "https", "quic", "gnet", "tcp"}
		p.Cache = "off"
		p.IpMarker, p.ECS = 0, 0.2
	case "C17":
		p.Listeners = []string{"tls", "https", "tls", "https", "tcp"}
		p.NListeners = [2]int{1, 3}
	case "C18":
		p.FailActs, p.MixedActs = 0.2, 0.1
		p.NConns, p.OpsPerConn = [2]int{2, 10}, [2]int{1, 6}
		p.Yields = true
	case "C10", "C11":
		p.RichRules = true
		p.NUpstreams = [2]int{2, 4}
		p.NConns, p.OpsPerConn = [2]int{3, 8}, [2]int{2, 8}
		p.RepeatToken = 0.1
		if arm == "burst" {
			// many queries inside a few milliseconds with scheduling points on:
			// concurrent evaluations of the same rule list and domain sets
			p.NConns, p.OpsPerConn = [2]int{6, 16}, [2]int{3, 10}
			p.SpanUs = 30_000
			p.Seg = true
			p.Yields = true
			p.DelayUs = [2]int64{100, 5_000}
		}
		if focus == "C10" {
			// repeats of a name in another class or type, with a cache that
			// may answer: the question still has to reach the upstream
			p.RepeatToken = 0.25
			p.Cache = "mix"
		}
	case "C12":
		p.EDNSProb, p.EDNSOptions = 0.7, true
		p.OptInReply = 0.6
		p.ECS = 0.7
		p.Unix = 0.3
		p.RepeatToken = 0.2
		p.OddQueries = 0.1
		if arm == "tight" {
			// answers around the client's size limit made of small records
			// whose names share nothing: the OPT record has to survive
			// whatever the truncation leaves
			p.Shapes = []string{"tight", "tight", "plain"}
			p.BigAnswers = 0.7
			p.EDNSProb = 0.9
			p.Listeners = []string{"udp", "udp", "udp", "tcp", "https"}
		}
		if arm == "overload" {
			// refusals made by the listener itself (per-connection limit)
			p.Listeners = []string{"tcp", "gnet", "tls"}
			p.NConns, p.OpsPerConn = [2]int{1, 4}, [2]int{4, 40}
			p.SpanUs = 300_000
			p.OddQueries = 0
		}
	case "C07", "C08", "C19":
		if focus == "C07" {
			p.HugeAnswers = 0.05
		}
		p.Cache = "ample"
		if focus == "C07" && arm == "tiny" {
			p.Cache = "tiny"
		}
		if arm == "prefetch" || arm == "tiny" {
			// concurrent stores, lookups and evictions: scheduling points on
			p.Yields = true
		}
		p.IpMarker = 0.7
		p.ECS = 0.5
		p.NUpstreams = [2]int{1, 2}
		p.Rcodes = focus == "C08"
		if focus == "C08" {
			p.TTLs = "edge"
		}
	case "C13":
		p.Shapes = []string{"plain", "plain", "mixed", "tight"}
		p.HugeAnswers = 0.15
		p.EDNSProb = 0.6
		p.Listeners = []string{"tcp", "gnet", "tls"}
		p.NConns, p.OpsPerConn = [2]int{1, 4}, [2]int{1, 40}
		p.Seg = true
		p.SpanUs = 300_000
		p.DelayUs = [2]int64{100, 400_000}
		p.Yields = true
		// connections whose segments straddle frame boundaries for longer than
		// the listener's idle time-out
		p.LongLived = 0.12
		if arm == "overload" {
			p.Overload = true
		}
	}
	return p
}

var zones = []string{"example.com", "test.org", "a.b.c.net", "corp.internal", "x.example.com", "deep.sub.test.org", "xn--fiq.cn", "ex.ample.io", "quiz.zone", "az.biz"}

// Generate makes the plan for (seed, focus, arm).
func Generate(seed uint64, focus, arm string) *plan.Plan {
	p := generate(seed, focus, arm)
	// object-pool poisoning: drawn from its own stream so that the rest of a
	// seed's plan does not depend on it
	r2 := &rng{s: seed*0xD1342543DE82EF95 + 0x706f6f6c}
	if focus == "C20" || r2.p(0.5) {
		p.Knobs.PoolPoison = true
		p.Knobs.PoolQuarantine = []int{0, 4, 32}[r2.intn(3)]
	}
	if focus != "C20" && r2.p(0.4) {
		// no quarantine either: a doubly released array is handed out twice at once
		p.Knobs.PassDoubleRelease = true
		p.Knobs.Quarantine = 0
	}
	if (focus == "C04" || focus == "C13" || focus == "C07" && arm == "redis") && p.Family == "router" && r2.p(0.35) {
		// buffers keep their contents when released and are reusable at once (as
		// shipped): what is sent from a buffer released too early is then another
		// response's bytes, not a pattern that no client can decode
		p.Knobs.NoPoison, p.Knobs.Quarantine, p.Knobs.GetFill = true, 0, 0
	}
	// write batch size of the memory cache's backend: with the shipped 64 a
	// short run never sees the deletion listener run for replaced or evicted
	// entries (own stream again)
	r3 := &rng{s: seed*0xA24BAED4963EE407 + 0x6f74746572}
	p.Knobs.OtterBatch = []int{0, 1, 1, 4, 16}[r3.intn(5)]
	p.Knobs.OtterSkewUs = []int64{300, 700, 20_000, 999_500}[r3.intn(4)]
	return p
}

func generate(seed uint64, focus, arm string) *plan.Plan {
	r := &rng{s: seed*0x9E3779B97F4A7C15 + 0x1234567}
	switch focus {
	case "C20":
		if arm == "cache" {
			p := generate(seed, "C07", []string{"prefetch", "tiny"}[seed&1])
			p.Focus, p.Arm = "C20", arm
			p.Knobs.Quarantine = 64
			return p
		}
		if arm == "xport" {
			p := genXport(r, seed, []string{"C06", "C14", "C05", "C16"}[r.intn(4)], "faults")
			p.Focus = "C20"
			p.Knobs.Quarantine = 64
			if p.Knobs.GetFill == 0 {
				p.Knobs.GetFill = 1
			}
			if p.Knobs.YieldDensity == 0 {
				p.Knobs.YieldDensity = 0.2
			}
			return p
		}
	case "C02", "C09":
		if arm == "codec" {
			p := genCodec(r, seed)
			p.Focus = focus
			return p
		}
	case "C05", "C06", "C14", "C16":
		return genXport(r, seed, focus, arm)
	case "C04":
		if arm == "cache" {
			// the memory cache under concurrent stores, lookups and evictions
			// (the workload of C07's prefetch / tiny arms): what a lookup hands
			// back must be the entry's own bytes
			p := generate(seed, "C07", []string{"prefetch", "tiny"}[seed&1])
			p.Focus, p.Arm = "C04", arm
			return p
		}
		if arm == "redis" {
			// the second-level cache: what is written there asynchronously (key
			// and value travel in pooled buffers) is what a later lookup of
			// that question gets back (C07's redis workload)
			p := generate(seed, "C07", "redis")
			p.Focus, p.Arm = "C04", arm
			return p
		}
		if arm == "exhaust" {
			// the end of a pipelined connection's id space: a wrapped id makes
			// two queries share a slot, and the (replayed) reply to the first
			// becomes the answer to the second
			p := genXport(r, seed, "C05", arm)
			p.Focus = "C04"
			return p
		}
	case "C18":
		if arm == "latedial" {
			return genLateDial(r, seed)
		}
		if arm == "exhaust" {
			// a pipelined connection that has used up its ids: closing the
			// upstream afterwards still has to close it
			p := genXport(r, seed, "C05", arm)
			p.Focus = "C18"
			p.Xport.ExhaustClose = true
			for k := 0; k < 8; k++ {
				p.Xport.Tokens[fmt.Sprintf("txslow%d", k)] = &plan.TokenSpec{Ans: plan.AnswerSpec{NAn: 1, TTLs: []uint32{60}, Shape: "plain"}, Acts: []plan.UpAction{{Kind: "reply", DelayUs: r.i64(3_500_000, 4_500_000)}}}
			}
			return p
		}
		if arm == "xclose" {
			p := genXport(r, seed, "C18x", arm)
			p.Focus = "C18"
			return p
		}
	case "C17":
		switch arm {
		case "addr":
			return genAddr(r, seed)
		case "auth":
			return genAuth(r, seed)
		}
	case "C15":
		if arm == "unit" {
			return genLimiter(r, seed)
		}
	}
	pr := ProfileFor(focus, arm)
	p := &plan.Plan{Version: 1, Seed: seed, Family: "router", Focus: focus, Arm: arm}
	p.Router = genRouter(r, &pr, focus, arm)
	p.Knobs = genKnobs(r, &pr)
	if focus == "C20" {
		p.Knobs.Quarantine = 64
		if p.Knobs.GetFill == 0 {
			p.Knobs.GetFill = 1
		}
	}
	specialize(r, p, focus, arm)
	if arm == "cli" {
		// the real command line on a generated file; one run in seven is the
		// control (no unknown key: the file must be accepted)
		p.Router.StartFault = nil
		if !r.p(0.15) {
			keys := []string{"no_such_key", "listn", "forwrd", "tag2", "Servers", "cache_size", "upstream", "rule", "addr ", "mem-size", "x"}
			p.Router.StartFault = &plan.StartFault{Kind: "unknown_key", Pos: r.intn(100000), Key: keys[r.intn(len(keys))]}
		}
		p.Router.Ops, p.Router.Conns = nil, nil
	}
	if arm == "redis" {
		if p.Knobs.YieldDensity == 0 && r.p(0.5) {
			// (the client library's writer lags behind Do only in runs with
			// scheduling noise)
			p.Knobs.YieldDensity = []float64{0.02, 0.1, 0.3}[r.intn(3)]
		}
		// second-level cache on the simulated redis server; a small memory
		// cache in half of the runs so that entries come back through redis
		rs := &plan.RedisSpec{LatUs: [2]int64{100, int64([]int{600, 5000, 30_000}[r.intn(3)])}}
		if r.p(0.5) {
			p.Router.Cache.MemSize = r.rng(600, 4000)
		} else if r.p(0.4) {
			p.Router.Cache.MemSize = 0 // the second level alone
		}
		if r.p(0.3) {
			from := r.i64(2_000_000, max(3_000_000, p.Router.HorizonUs/2))
			rs.DownUs = [][2]int64{{from, from + r.i64(500_000, 20_000_000)}}
		}
		if r.p(0.2) {
			rs.FlushUs = []int64{r.i64(2_000_000, max(3_000_000, p.Router.HorizonUs/2))}
		}
		if focus == "C08" && r.p(0.2) {
			// lookups that take seconds: an answer ages while the proxy waits for it
			rs.SlowGetUs = [2]int64{r.i64(200_000, 1_200_000), r.i64(1_300_000, 3_800_000)}
			if r.p(0.7) {
				p.Router.Cache.MemSize = 0
			}
		}
		if focus == "C08" && r.p(0.3) {
			// a late write: the server stops answering just before three answers
			// are stored; the first SET times out (3 s), the second one too, and
			// the third is executed seconds late with the lifetime computed when
			// it was queued - the key then outlives the value's own expiry.  A
			// query for it comes after the expiry (plus the allowance) while the
			// key is still there.
			rp := p.Router
			w := r.i64(1_000_000, 3_000_000)
			d := r.i64(3_300_000, 5_700_000)
			life := int64([]int{5, 6, 8}[r.intn(3)])
			rs.LatUs = [2]int64{100, 600}
			rs.DownUs = [][2]int64{{w, w + d}}
			rs.FlushUs = nil
			for k := 0; k < 3; k++ {
				tok := fmt.Sprintf("t%d", 900+k)
				delay := []int64{40_000, 120_000, 260_000}[k] + r.i64(0, 30_000)
				rp.Tokens[tok] = &plan.TokenSpec{Ans: plan.AnswerSpec{NAn: 1, TTLs: []uint32{uint32(life)}, Shape: "plain"}, Acts: []plan.UpAction{{Kind: "reply", DelayUs: delay}}}
				ats := []int64{w - r.i64(8_000, 12_000)}
				if k > 0 {
					ats = append(ats, w+300_000+life*1_000_000+2_300_000+r.i64(0, 2_600_000))
				}
				for _, at := range ats {
					si := r.intn(len(rp.Servers))
					ci := len(rp.Conns)
					cc := plan.ClientConn{Idx: ci, Server: si, LingerUs: 8_000_000, Src: "192.0.2.7"}
					if strings.HasPrefix(rp.Servers[si].Listen, "[::1]") {
						cc.Src = "2001:db8:a::5"
					}
					rp.Conns = append(rp.Conns, cc)
					op := plan.ClientOp{Idx: len(rp.Ops), Conn: ci, AtUs: at, ID: uint16(r.u64()), Token: tok, NQ: 1, Class: 1, Type: 1, Bits: refdns.BitRD}
					op.Labels = append([][]byte{[]byte(tok)}, labelsOf("example.com")...)
					if pr := rp.Servers[si].Proto; pr == "http" || pr == "fasthttp" || pr == "https" {
						op.Method = "POST"
					}
					rp.Ops = append(rp.Ops, op)
					if at+10_000_000 > rp.HorizonUs {
						rp.HorizonUs = at + 10_000_000
					}
				}
			}
		}
		if focus == "C07" && r.p(0.3) {
			// many different questions are answered within a few milliseconds
			// and written to the second level (the only one) one after the
			// other, while their buffers go back to the pool and out again;
			// each is asked again later and must get its own answer back
			rp := p.Router
			rs.DownUs, rs.FlushUs = nil, nil
			rp.Cache.MemSize = 0
			if p.Knobs.YieldDensity == 0 {
				p.Knobs.YieldDensity = []float64{0.02, 0.1, 0.3}[r.intn(3)]
			}
			t0 := r.i64(1_800_000, 3_000_000) // after the second level's first ping
			d := r.i64(2_000, 30_000)
			addOp := func(tok string, at int64) {
				si := r.intn(len(rp.Servers))
				ci := len(rp.Conns)
				cc := plan.ClientConn{Idx: ci, Server: si, LingerUs: 8_000_000, Src: "192.0.2.7"}
				if strings.HasPrefix(rp.Servers[si].Listen, "[::1]") {
					cc.Src = "2001:db8:a::5"
				}
				rp.Conns = append(rp.Conns, cc)
				op := plan.ClientOp{Idx: len(rp.Ops), Conn: ci, AtUs: at, ID: uint16(r.u64()), Token: tok, NQ: 1, Class: 1, Type: 1, Bits: refdns.BitRD}
				op.Labels = append([][]byte{[]byte(tok)}, labelsOf("example.com")...)
				if pr := rp.Servers[si].Proto; pr == "http" || pr == "fasthttp" || pr == "https" {
					op.Method = "POST"
				}
				rp.Ops = append(rp.Ops, op)
				if at+12_000_000 > rp.HorizonUs {
					rp.HorizonUs = at + 12_000_000
				}
			}
			for k, n := 0, r.rng(6, 30); k < n; k++ {
				tok := fmt.Sprintf("t%d", 800+k)
				rp.Tokens[tok] = &plan.TokenSpec{Ans: plan.AnswerSpec{NAn: r.rng(1, 3), TTLs: []uint32{60}, Shape: "plain"}, Acts: []plan.UpAction{{Kind: "reply", DelayUs: d + r.i64(0, 3000)}}}
				// (a write takes up to 40 ms to leave the client library: answers
				// keep coming in while earlier ones are on their way out)
				addOp(tok, t0+int64(k)*r.i64(500, 25_000)+r.i64(0, 3000))
				addOp(tok, t0+2_500_000+r.i64(0, 2_000_000))
			}
		}
		if focus == "C08" && r.p(0.2) {
			// promotion: an entry is pushed out of a small memory cache by other
			// names while redis keeps it; a query brings it back into memory half
			// way through its life; it must not get a new lifespan there
			rp := p.Router
			rs.DownUs, rs.FlushUs = nil, nil
			rp.Cache.MemSize = r.rng(600, 1500)
			rp.Cache.MaxTTL = 0
			life := int64([]int{8, 12, 20}[r.intn(3)])
			t0 := r.i64(1_800_000, 3_000_000)
			addOp := func(tok string, at int64) {
				si := r.intn(len(rp.Servers))
				ci := len(rp.Conns)
				cc := plan.ClientConn{Idx: ci, Server: si, LingerUs: 8_000_000, Src: "192.0.2.7"}
				if strings.HasPrefix(rp.Servers[si].Listen, "[::1]") {
					cc.Src = "2001:db8:a::5"
				}
				rp.Conns = append(rp.Conns, cc)
				op := plan.ClientOp{Idx: len(rp.Ops), Conn: ci, AtUs: at, ID: uint16(r.u64()), Token: tok, NQ: 1, Class: 1, Type: 1, Bits: refdns.BitRD}
				op.Labels = append([][]byte{[]byte(tok)}, labelsOf("example.com")...)
				if pr := rp.Servers[si].Proto; pr == "http" || pr == "fasthttp" || pr == "https" {
					op.Method = "POST"
				}
				rp.Ops = append(rp.Ops, op)
				if at+12_000_000 > rp.HorizonUs {
					rp.HorizonUs = at + 12_000_000
				}
			}
			rp.Tokens["t960"] = &plan.TokenSpec{Ans: plan.AnswerSpec{NAn: 2, TTLs: []uint32{uint32(life)}, Shape: "plain"}, Acts: []plan.UpAction{{Kind: "reply", DelayUs: r.i64(200, 20_000)}}}
			addOp("t960", t0)
			for k := 0; k < r.rng(6, 14); k++ {
				tok := fmt.Sprintf("t%d", 961+k)
				rp.Tokens[tok] = &plan.TokenSpec{Ans: plan.AnswerSpec{NAn: 3, NNs: 1, TTLs: []uint32{600}, Shape: "plain"}, Acts: []plan.UpAction{{Kind: "reply", DelayUs: r.i64(200, 20_000)}}}
				addOp(tok, t0+200_000+int64(k)*r.i64(20_000, 100_000))
			}
			d := life * 1_000_000 * int64(40+r.intn(30)) / 100
			addOp("t960", t0+d)
			for n := r.rng(1, 4); n > 0; n-- {
				addOp("t960", t0+life*1_000_000+2_300_000+r.i64(0, max(1, d-2_600_000)))
			}
		}
		if focus == "C08" && r.p(0.2) {
			// a refresh that comes back negative while the positive entry is
			// alive in the second level only (no memory cache, or one too small
			// to keep it): the negative answer must not take its place there
			rp := p.Router
			rs.DownUs, rs.FlushUs = nil, nil
			if r.p(0.6) {
				rp.Cache.MemSize = 0
			}
			rp.Cache.MaxTTL = 0
			life := int64([]int{8, 12, 20}[r.intn(3)])
			t0 := r.i64(1_800_000, 3_000_000) // after the second level's first ping
			for k := 0; k < r.rng(1, 3); k++ {
				tok := fmt.Sprintf("t%d", 950+k)
				neg := plan.AnswerSpec{Rcode: []int{3, 2, 5}[r.intn(3)], NNs: r.intn(2), TTLs: []uint32{uint32(life)}, Shape: "plain"}
				rp.Tokens[tok] = &plan.TokenSpec{Ans: plan.AnswerSpec{NAn: r.rng(1, 3), TTLs: []uint32{uint32(life)}, Shape: "plain"}, Ans2: &neg, Ans2From: 1,
					Acts: []plan.UpAction{{Kind: "reply", DelayUs: r.i64(200, 20_000)}}}
				ats := []int64{t0 + int64(k)*r.i64(1000, 50_000), t0 + life*1_000_000*int64(78+r.intn(8))/100}
				for n := r.rng(1, 3); n > 0; n-- {
					ats = append(ats, t0+life*1_000_000*int64(88+r.intn(8))/100+r.i64(0, 200_000))
				}
				for _, at := range ats {
					si := r.intn(len(rp.Servers))
					ci := len(rp.Conns)
					cc := plan.ClientConn{Idx: ci, Server: si, LingerUs: 8_000_000, Src: "192.0.2.7"}
					if strings.HasPrefix(rp.Servers[si].Listen, "[::1]") {
						cc.Src = "2001:db8:a::5"
					}
					rp.Conns = append(rp.Conns, cc)
					op := plan.ClientOp{Idx: len(rp.Ops), Conn: ci, AtUs: at, ID: uint16(r.u64()), Token: tok, NQ: 1, Class: 1, Type: 1, Bits: refdns.BitRD}
					op.Labels = append([][]byte{[]byte(tok)}, labelsOf("example.com")...)
					if pr := rp.Servers[si].Proto; pr == "http" || pr == "fasthttp" || pr == "https" {
						op.Method = "POST"
					}
					rp.Ops = append(rp.Ops, op)
					if at+12_000_000 > rp.HorizonUs {
						rp.HorizonUs = at + 12_000_000
					}
				}
			}
		}
		p.Router.Cache.Redis = rs
	}
	return p
}

func genKnobs(r *rng, pr *Profile) plan.Knobs {
	k := plan.Knobs{GetFill: r.intn(3), UDPMaxBatch: []int{1, 4, 16}[r.intn(3)], UDPCoalesce: int64(r.intn(400))}
	if r.p(0.5) {
		k.Quarantine = 64
	}
	if pr.Yields || r.p(0.3) {
		k.YieldDensity = []float64{0.02, 0.1, 0.3}[r.intn(3)]
		if r.p(0.5) {
			k.YieldMask = r.u64() | r.u64()
		}
		k.StallProb = []float64{0, 0.01, 0.05}[r.intn(3)]
		k.StallMaxUs = 20_000
	}
	if pr.GC && r.p(0.6) {
		k.GCEveryUs = int64(r.rng(5_000, 200_000))
	}
	k.LogDebug = r.p(0.15)
	if r.p(0.3) {
		k.GnetReadCap = []int{16, 64, 1024}[r.intn(3)]
	}
	return k
}

// fillName inserts labels after the first one so that the name's wire form
// has 255 octets (the longest a name can be), or a few less.  Half of the
// fillers consist of octets that the text form escapes as \DDD.
func fillName(r *rng, ls [][]byte) [][]byte {
	target := []int{255, 255, 255, 254, 253, 250, 240}[r.intn(7)]
	cur := 1
	for _, l := range ls {
		cur += len(l) + 1
	}
	rem := target - cur
	if rem < 2 {
		return ls
	}
	binary := r.p(0.5)
	// a third of the long names are made of many short labels (up to 127 of
	// them fit) instead of few long ones
	maxLabel := []int{63, 63, 1, 2}[r.intn(4)]
	var fill [][]byte
	for rem >= 2 {
		n := min(maxLabel, rem-1)
		if rem-(n+1) == 1 {
			n--
		}
		l := make([]byte, n)
		for i := range l {
			if binary {
				l[i] = []byte{1, 2, 7, 31, 127, 128, 200, 255, ' ', '_', '*', 0}[r.intn(12)]
			} else {
				l[i] = 'a' + byte(r.intn(26))
			}
		}
		fill = append(fill, l)
		rem -= n + 1
	}
	out := append([][]byte{}, ls[0])
	out = append(out, fill...)
	return append(out, ls[1:]...)
}

func mixCase(r *rng, b []byte) []byte {
	o := append([]byte(nil), b...)
	for i, c := range o {
		if 'a' <= c && c <= 'z' && r.p(0.3) {
			o[i] = c - 32
		}
	}
	return o
}

func labelsOf(s string) [][]byte {
	var ls [][]byte
	for _, p := range strings.Split(s, ".") {
		ls = append(ls, []byte(p))
	}
	return ls
}

func genRouter(r *rng, pr *Profile, focus, arm string) *plan.RouterPlan {
	rp := &plan.RouterPlan{Tokens: map[string]*plan.TokenSpec{}}
	// listeners
	nl := r.rng(pr.NListeners[0], pr.NListeners[1])
	for i := 0; i < nl; i++ {
		proto := r.pick(pr.Listeners)
		port := 5300 + i
		var listen string
		switch {
		case pr.Unix > 0 && r.p(pr.Unix) && (proto == "tcp" || proto == "http" || proto == "fasthttp" || proto == "gnet"):
			listen = fmt.Sprintf("@verifsim-%d", i)
		default:
			switch r.intn(4) {
			case 0:
				listen = fmt.Sprintf("127.0.0.1:%d", port)
			case 1:
				listen = fmt.Sprintf(":%d", port) // dual stack: IPv4 clients appear v4-mapped
			case 2:
				listen = fmt.Sprintf("[::1]:%d", port)
			default:
				listen = fmt.Sprintf("0.0.0.0:%d", port)
			}
		}
		s := plan.ServerSpec{Tag: fmt.Sprintf("s%d", i), Proto: proto, Listen: listen}
		if r.p(0.3) {
			s.IdleTimeout = r.rng(8, 40)
		}
		if (proto == "http" || proto == "fasthttp" || proto == "https") && r.p(0.3) {
			s.ClientAddrHeader = "X-Forwarded-For"
		}
		if proto == "udp" && r.p(0.2) {
			s.UDPThreads = 2
		}
		if proto == "udp" && (strings.HasPrefix(listen, ":") || strings.HasPrefix(listen, "0.0.0.0:")) && r.p(0.4) {
			s.MultiRoutes = true
		}
		rp.Servers = append(rp.Servers, s)
	}
	// upstreams
	nu := r.rng(pr.NUpstreams[0], pr.NUpstreams[1])
	for i := 0; i < nu; i++ {
		kind := r.pick(pr.UpKinds)
		u := plan.UpstreamSpec{Tag: fmt.Sprintf("up%d", i), Kind: kind, Host: fmt.Sprintf("10.1.0.%d", 10+i)}
		host := u.Host
		byName := r.p(0.3)
		if byName {
			host = fmt.Sprintf("up%d.upstream.test", i)
		}
		defPort := map[string]int{"udp": 53, "tcp": 53, "tcp+pipeline": 53, "tls": 853, "tls+pipeline": 853, "https": 443, "http": 80, "quic": 853, "h3": 443}[kind]
		u.Port = defPort
		addr := host
		if r.p(0.4) {
			u.Port = 1000 + r.intn(5000)
			addr = fmt.Sprintf("%s:%d", host, u.Port)
		}
		switch kind {
		case "udp":
			if r.p(0.5) {
				u.Addr = addr
			} else {
				u.Addr = "udp://" + addr
			}
		case "https", "http", "h3":
			u.Addr = kind + "://" + addr + "/dns-query"
			u.HTTP1 = kind == "https" && r.p(0.3)
		default:
			u.Addr = kind + "://" + addr
		}
		if kind == "tls" || kind == "tls+pipeline" || kind == "https" || kind == "quic" || kind == "h3" {
			u.TLS = "good"
			if r.p(0.8) {
				u.UseCA = true
			} else {
				u.Skip = true
			}
		}
		if byName && r.p(0.5) {
			// override dialling by IP, with or without port
			if r.p(0.5) {
				u.DialAddr = u.Host
				if u.Port != defPort {
					u.DialAddr = fmt.Sprintf("%s:%d", u.Host, u.Port)
				}
			} else {
				u.DialAddr = fmt.Sprintf("%s:%d", u.Host, u.Port)
			}
		}
		rp.Upstreams = append(rp.Upstreams, u)
	}
	genRules(r, pr, rp)
	// cache
	mode := pr.Cache
	if mode == "mix" {
		mode = []string{"off", "tiny", "ample", "ample"}[r.intn(4)]
	}
	switch mode {
	case "tiny":
		rp.Cache.MemSize = r.rng(600, 4000)
	case "ample":
		rp.Cache.MemSize = 8 << 20
	}
	if r.p(0.3) {
		rp.Cache.MaxTTL = []int{1, 60, 86400}[r.intn(3)]
	}
	rp.ECS = r.p(pr.ECS)
	rp.LogQueries = r.p(0.2)
	if r.p(pr.IpMarker) {
		rp.Cache.IpMarker = []plan.RangeSpec{
			{"192.0.2.0", "192.0.2.255", "net-a"}, {"198.51.100.0", "198.51.100.127", "net-b"},
			{"198.51.100.128", "198.51.100.255", "net-a"}, {"2001:db8:a::", "2001:db8:a:ff:ffff:ffff:ffff:ffff", "net-a"},
			{"2001:db8:b::", "2001:db8:b:ff:ffff:ffff:ffff:ffff", "net-c"},
		}
	}
	// network
	rp.Net.ClientLatUs = [2]int64{50, int64(r.rng(100, 3000))}
	rp.Net.UpLatUs = [2]int64{50, int64(r.rng(100, 20000))}
	if pr.Seg {
		rp.Net.UpSegMode = r.intn(4)
	}
	if pr.UpFaultNet && r.p(0.5) {
		rp.Net.UpDrop = []float64{0.02, 0.1}[r.intn(2)]
		rp.Net.UpDup = []float64{0, 0.05}[r.intn(2)]
	}
	// clients
	srcs4 := []string{"192.0.2.7", "192.0.2.200", "198.51.100.9", "198.51.100.130", "203.0.113.77"}
	srcs6 := []string{"2001:db8:a::5", "2001:db8:b:12::9", "2001:db8:ffff::1"}
	nc := r.rng(pr.NConns[0], pr.NConns[1])
	opIdx := 0
	var tokens []string
	for ci := 0; ci < nc; ci++ {
		si := r.intn(len(rp.Servers))
		srv := rp.Servers[si]
		cc := plan.ClientConn{Idx: ci, Server: si, LingerUs: pr.LingerUs}
		// source address family must be able to reach the listener
		host := srv.Listen
		switch {
		case strings.HasPrefix(host, "127.") || strings.HasPrefix(host, "0.0.0.0"):
			cc.Src = r.pick(srcs4)
		case strings.HasPrefix(host, "[::1]"):
			cc.Src = r.pick(srcs6)
		default:
			if r.p(0.5) {
				cc.Src = r.pick(srcs4)
			} else {
				cc.Src = r.pick(srcs6)
			}
		}
		if srv.MultiRoutes && r.p(0.5) {
			cc.AltDst = true
		}
		if pr.Seg {
			cc.SegMode = r.intn(4)
			cc.SegBytes = r.rng(1, 12)
			cc.Coalesce = r.p(0.5)
		}
		if srv.ClientAddrHeader != "" && r.p(0.7) {
			cc.XFF = []string{"203.0.113.9", "2001:db8:b::77", "192.0.2.44, 10.0.0.1"}[r.intn(3)]
		}
		cc.HTTP2 = srv.Proto == "https" && r.p(0.6)
		rp.Conns = append(rp.Conns, cc)
		nops := r.rng(pr.OpsPerConn[0], pr.OpsPerConn[1])
		if srv.Proto == "http" || srv.Proto == "fasthttp" || srv.Proto == "https" {
			nops = min(nops, 6)
		}
		base := uint16(r.u64())
		t0 := r.i64(10_000, max(10_001, pr.SpanUs))
		// a connection that is used again and again, never idle for long, and
		// grows older than the listener's idle time-out with a query pending
		longGap := int64(0)
		if pr.LongLived > 0 && (srv.Proto == "tcp" || srv.Proto == "tls" || srv.Proto == "gnet" || srv.Proto == "quic") && r.p(pr.LongLived) {
			idle := int64(srv.IdleTimeout)
			if idle == 0 {
				idle = 10
			}
			longGap = r.i64(800_000, 3_500_000)
			nops = int(min(18, (idle*1_000_000+4_000_000)/longGap+2))
			if pr.Seg && srv.Proto != "quic" && r.p(0.5) {
				rp.Conns[len(rp.Conns)-1].Straddle = true
			}
		}
		for k := 0; k < nops; k++ {
			op := plan.ClientOp{Idx: opIdx, Conn: ci, ID: base + uint16(k)*uint16(1+r.intn(3)*0+1), NQ: 1, Class: 1, Bits: refdns.BitRD}
			opIdx++
			if pr.Seg && r.p(0.6) {
				op.AtUs = t0 + int64(k)*int64(r.intn(300))
			} else {
				op.AtUs = r.i64(10_000, max(10_001, pr.SpanUs))
			}
			if longGap > 0 {
				op.AtUs = t0 + int64(k)*longGap + r.i64(0, longGap/4)
			}
			op.Type = []uint16{1, 28, 5, 15, 16, 33, 2, 12, 6, 255, 65}[r.intn(11)]
			if pr.Classes && r.p(0.2) {
				op.Class = []uint16{3, 4, 255, 1}[r.intn(4)]
			}
			if len(tokens) > 0 && r.p(pr.RepeatToken) {
				// reuse an earlier token: same labels (maybe other case), same type/class
				prev := rp.Ops[r.intn(len(rp.Ops))]
				if prev.Raw == nil {
					op.Token, op.Type, op.Class = prev.Token, prev.Type, prev.Class
					if r.p(0.3) {
						// same name, neighbouring type or another class: a different question
						if r.p(0.6) {
							op.Type = prev.Type ^ 1
						} else {
							op.Class = []uint16{3, 4, 1, 254}[r.intn(4)]
						}
					}
					op.Labels = nil
					for _, l := range prev.Labels {
						op.Labels = append(op.Labels, mixCase(r, []byte(strings.ToLower(string(l)))))
					}
				}
			}
			if op.Token == "" {
				op.Token = fmt.Sprintf("t%d", op.Idx)
				tokens = append(tokens, op.Token)
				ls := [][]byte{[]byte(op.Token)}
				if r.p(0.3) {
					ls = append(ls, []byte([]string{"www", "api", "x", "mail"}[r.intn(4)]))
				}
				ls = append(ls, labelsOf(r.pick(zones))...)
				for i := range ls {
					ls[i] = mixCase(r, ls[i])
				}
				if r.p(pr.LongNames) {
					ls = fillName(r, ls)
				}
				op.Labels = ls
				rp.Tokens[op.Token] = genToken(r, pr, op.Type)
				if t := rp.Tokens[op.Token]; longGap > 0 && len(t.Acts) == 1 && t.Acts[0].Kind == "reply" && r.p(0.6) {
					t.Acts[0].DelayUs = r.i64(500_000, 5_200_000) // pending for a while
				}
			}
			if r.p(pr.OddQueries) {
				switch r.intn(5) {
				case 0:
					op.Bits &^= refdns.BitRD
				case 1:
					op.Bits |= uint16(1+r.intn(15)) << 11
				case 2:
					op.NQ = []int{0, 2, 5}[r.intn(3)]
				case 3:
					op.Bits |= refdns.BitAD | refdns.BitCD | refdns.BitZ
				default:
					op.Bits |= refdns.BitQR
				}
			}
			if r.p(pr.EDNSProb) {
				e := &plan.EDNSSpec{UDPSize: []uint16{0, 511, 512, 513, 1232, 4096, 65535, 1400}[r.intn(8)]}
				if pr.EDNSOptions {
					if r.p(0.4) {
						e.TTL = []uint32{0x8000, 0x01000000, 0x00010000, 0x8000 | 0x7f}[r.intn(4)]
					}
					for n := r.intn(4); n > 0; n-- {
						code := []uint16{10, 8, 12, 3, 65001, 15}[r.intn(6)]
						d := r.bytes(r.rng(0, 24))
						if code == 8 {
							d = append([]byte{0, 1, 32, 0}, r.bytes(4)...) // a full /32 client subnet supplied by the client
						}
						e.Options = append(e.Options, plan.EDNSOption{Code: code, Data: d})
					}
				}
				op.EDNS = e
			}
			if srv.Proto == "http" || srv.Proto == "fasthttp" || srv.Proto == "https" {
				if r.p(0.5) {
					op.Method = "POST"
				} else {
					op.Method = "GET"
				}
			}
			if r.p(pr.Garbage) {
				makeGarbage(r, &op, srv.Proto)
			}
			rp.Ops = append(rp.Ops, op)
		}
	}
	var last int64
	for _, o := range rp.Ops {
		if o.AtUs > last {
			last = o.AtUs
		}
	}
	rp.HorizonUs = last + pr.LingerUs + 12_000_000
	return rp
}

func genToken(r *rng, pr *Profile, qtype uint16) *plan.TokenSpec {
	t := &plan.TokenSpec{}
	a := &t.Ans
	a.Shape = r.pick(pr.Shapes)
	a.NAn = r.rng(0, 4)
	if r.p(0.7) && a.NAn == 0 {
		a.NAn = 1
	}
	a.NNs = []int{0, 0, 1, 2}[r.intn(4)]
	a.NAr = []int{0, 0, 1, 3}[r.intn(4)]
	if pr.Rcodes && r.p(0.3) {
		a.Rcode = []int{3, 2, 5, 1, 9, 0}[r.intn(6)]
		if a.Rcode != 0 && r.p(0.5) {
			a.NAn = 0
		}
		if r.p(0.3) {
			a.NAn, a.NNs, a.NAr = 0, 0, 0
		}
	}
	if r.p(0.3) {
		a.Bits |= refdns.BitAA
	}
	if r.p(0.2) {
		a.Bits |= refdns.BitAD
	}
	if r.p(0.1) {
		a.Bits |= refdns.BitCD
	}
	if pr.TCAnswers > 0 && r.p(pr.TCAnswers) {
		a.Bits |= refdns.BitTC
	}
	switch pr.TTLs {
	case "edge":
		for n := r.rng(1, 4); n > 0; n-- {
			a.TTLs = append(a.TTLs, []uint32{0, 1, 2, 5, 30, 60, 300, 4294967295, 86400, 7}[r.intn(10)])
		}
	default:
		for n := r.rng(1, 3); n > 0; n-- {
			a.TTLs = append(a.TTLs, uint32(r.rng(5, 3600)))
		}
	}
	if r.p(pr.BigAnswers) {
		a.PadTo = []int{400, 500, 520, 700, 1100, 1300, 2000, 4200, 9000, 30000, 66000}[r.intn(11)]
	}
	if a.Shape == "late" {
		// (below 16384 the late names are still compression targets: pointers
		// with every offset bit in use)
		a.PadTo = []int{17000, 20000, 40000, 8300, 9000, 12500, 16000}[r.intn(7)]
	}
	if a.Shape == "tight" {
		a.PadTo = []int{520, 560, 700, 1000, 1300, 1500, 2500, 4300}[r.intn(8)]
		if pr.HugeAnswers > 0 && r.p(pr.HugeAnswers) {
			// a stream-sized answer with (almost) no room left for one more record
			a.PadTo = []int{65535, 65530, 65524, 65500}[r.intn(4)]
		}
	}
	if a.Shape != "tight" && a.Shape != "late" && pr.HugeAnswers > 0 && r.p(pr.HugeAnswers/2) {
		// fits a stream on the wire thanks to compression, not when written out in full
		a.PadTo = []int{66000, 70000}[r.intn(2)]
	}
	if r.p(pr.OptInReply) {
		o := &plan.UpOPT{Pos: r.intn(5), UDPSize: []uint16{512, 1232, 4096, 65535}[r.intn(4)]}
		if r.p(0.5) {
			o.TTL = []uint32{0x8000, 0x01000000}[r.intn(2)]
		}
		for n := r.intn(3); n > 0; n-- {
			o.Options = append(o.Options, plan.EDNSOption{Code: []uint16{10, 8, 12, 65001}[r.intn(4)], Data: r.bytes(r.rng(0, 16))})
		}
		a.OPT = o
	}
	if pr.Compress {
		a.Compress = r.intn(4)
	}
	a.MaxNames = r.p(0.06)
	a.Nested = r.p(0.06)

	d := func() int64 { return r.i64(pr.DelayUs[0], pr.DelayUs[1]) }
	switch {
	case r.p(pr.FailActs):
		kinds := []string{"silent", "garbage", "fin", "rst", "half_frame"}
		if len(pr.FailKinds) > 0 {
			kinds = pr.FailKinds
		}
		k := kinds[r.intn(len(kinds))]
		act := plan.UpAction{Kind: k, DelayUs: d(), Arg: r.intn(50)}
		if k == "garbage" {
			act.Raw = r.bytes(r.rng(0, 11)) // shorter than a header: no decoder accepts it
			act.Arg = r.intn(2)
		}
		t.Acts = []plan.UpAction{act}
	case r.p(pr.MixedActs):
		k := []string{"fin", "rst", "silent"}[r.intn(3)]
		t.Acts = []plan.UpAction{{Kind: k, DelayUs: d()}, {Kind: "reply", DelayUs: d()}}
	case r.p(pr.GarbageReply):
		t.Acts = []plan.UpAction{{Kind: "garbage", DelayUs: d(), Raw: r.bytes(r.rng(0, 11)), Arg: r.intn(2)}}
		if r.p(0.5) {
			t.Acts[0].Arg = 2 + r.intn(1000) // the real answer cut short (see peers.UpServer)
		}
	case r.p(pr.DupReply):
		t.Acts = []plan.UpAction{{Kind: "reply_many", DelayUs: d(), Arg: r.rng(3, 6)}}
	case r.p(pr.LateReply):
		t.Acts = []plan.UpAction{{Kind: "reply", DelayUs: r.i64(6_050_000, 7_500_000)}, {Kind: "reply", DelayUs: d()}}
	default:
		t.Acts = []plan.UpAction{{Kind: "reply", DelayUs: d()}}
	}
	if pr.OddHdr > 0 && r.p(pr.OddHdr) {
		for i := range t.Acts {
			t.Acts[i].Hdr = r.rng(1, 127)
		}
	}
	return t
}

func genRules(r *rng, pr *Profile, rp *plan.RouterPlan) {
	tags := make([]string, len(rp.Upstreams))
	for i, u := range rp.Upstreams {
		tags[i] = u.Tag
	}
	if !pr.RichRules {
		// simple: optional split by one domain set, then a catch-all
		if len(tags) > 1 && r.p(0.6) {
			rp.DomainSets = []plan.DomainSetSpec{{Tag: "set0", Files: [][]string{{"example.com", "full:www.test.org", "# comment", "", "domain:c.net"}}}}
			rp.Rules = append(rp.Rules, plan.RuleSpec{Domain: "set0", Forward: tags[1], Reverse: r.p(0.2)})
		}
		rp.Rules = append(rp.Rules, plan.RuleSpec{Forward: tags[0]})
		return
	}
	// rich: 1-3 domain sets over the zone pool, 1-6 rules
	ns := r.rng(1, 3)
	for i := 0; i < ns; i++ {
		ds := plan.DomainSetSpec{Tag: fmt.Sprintf("set%d", i)}
		nf := r.rng(1, 3)
		for f := 0; f < nf; f++ {
			var lines []string
			for n := r.rng(1, 8); n > 0; n-- {
				lines = append(lines, genEntry(r))
			}
			if r.p(0.3) {
				lines = append(lines, "# a comment", "", "   ")
			}
			if r.p(0.2) {
				ds.NoFinalNewline = append(ds.NoFinalNewline, f)
			}
			ds.Files = append(ds.Files, lines)
		}
		if r.p(0.07) {
			// a set without a single entry: it matches nothing
			ds.Files = [][]string{[][]string{{}, {"# nothing here", "", "   "}}[r.intn(2)]}
		}
		rp.DomainSets = append(rp.DomainSets, ds)
	}
	nr := r.rng(1, 6)
	for i := 0; i < nr; i++ {
		ru := plan.RuleSpec{}
		if r.p(0.8) {
			ru.Domain = rp.DomainSets[r.intn(len(rp.DomainSets))].Tag
			ru.Reverse = r.p(0.25)
		}
		switch r.intn(6) {
		case 0:
			ru.Reject = uint16([]int{3, 5, 2, 1}[r.intn(4)])
		case 1:
			// no action
		default:
			ru.Forward = tags[r.intn(len(tags))]
			if r.p(0.1) {
				ru.Reject = 3 // reject wins over forward
			}
		}
		rp.Rules = append(rp.Rules, ru)
	}
	if r.p(0.6) {
		rp.Rules = append(rp.Rules, plan.RuleSpec{Forward: tags[0]})
	}
}

func genEntry(r *rng) string {
	z := r.pick(zones)
	ls := strings.Split(z, ".")
	// take a suffix of the zone, maybe prepend a label
	k := r.rng(1, len(ls))
	name := strings.Join(ls[len(ls)-k:], ".")
	if r.p(0.4) {
		name = []string{"www", "api", "x", "mail", "t1", "t2", "t3"}[r.intn(7)] + "." + name
	}
	if r.p(0.2) {
		name = strings.ToUpper(name[:1]) + name[1:]
	}
	if r.p(0.15) {
		name += "."
	}
	switch r.intn(8) {
	case 0:
		return "full:" + name
	case 1:
		return "domain:" + name
	case 2:
		return "regexp:" + []string{`\.org$`, `^t[0-9]*[02468]\.`, `^[^.]+\.www\.`, `example`, `^t1\.`, `c\.net$`}[r.intn(6)]
	case 3:
		return name + "  # trailing comment"
	default:
		return name
	}
}

func makeGarbage(r *rng, op *plan.ClientOp, proto string) {
	// garbage gets a token of its own (not starting with 't', so that fake
	// upstreams and oracles never attribute a still-decodable mutation to a
	// valid operation that shares the original token)
	op.Token = "g" + op.Token
	if len(op.Labels) > 0 {
		op.Labels = append([][]byte{[]byte(op.Token)}, op.Labels[1:]...)
	}
	valid := refdns.Pack(&refdns.Msg{ID: op.ID, Bits: op.Bits, Q: []refdns.Question{{Name: refdns.NameFromLabels(op.Labels...), Type: op.Type, Class: op.Class}}}, refdns.PackOpts{})
	var b []byte
	switch r.intn(10) {
	case 0: // truncated at a random point
		b = valid[:r.intn(len(valid))]
	case 1: // bit flips (the id is kept, so that a reply is attributed to this op)
		b = append([]byte(nil), valid...)
		for n := r.rng(1, 4); n > 0; n-- {
			b[2+r.intn(len(b)-2)] ^= 1 << r.intn(8)
		}
	case 2: // counts that lie
		b = append([]byte(nil), valid...)
		b[4+2*r.intn(4)] = 0xff
		b[5+2*r.intn(4)] = 0xff
	case 3: // compression pointer to itself
		b = append(append([]byte(nil), valid[:12]...), 0xC0, 12, 0, 1, 0, 1)
	case 4: // pointer chain
		b = append([]byte(nil), valid[:12]...)
		for i := 0; i < 12; i++ {
			b = append(b, 0xC0, byte(12+2*((i+1)%12)))
		}
		b = append(b, 0, 1, 0, 1)
	case 5: // label length 64..255 / reserved prefixes
		b = append(append([]byte(nil), valid[:12]...), []byte{[]byte{64, 0x80, 0x40, 200, 255}[r.intn(5)]}...)
		b = append(b, r.bytes(r.rng(0, 80))...)
	case 6: // over-long name
		b = append([]byte(nil), valid[:12]...)
		for i := 0; i < 5; i++ {
			b = append(b, 63)
			b = append(b, make([]byte, 63)...)
		}
		b = append(b, 0, 0, 1, 0, 1)
	case 7: // random bytes
		b = r.bytes([]int{0, 1, 2, 11, 12, 13, 40, 600, 3000}[r.intn(9)])
	case 8: // rdlength that lies
		b = append(append([]byte(nil), valid...), 0, 0, 1, 0, 1, 0, 0, 0, 1, 0xff, 0xff, 1, 2, 3, 4)
		b[11] = 1
	default: // empty
		b = []byte{}
	}
	if b == nil {
		b = []byte{}
	}
	op.Raw = b
	op.EDNS = nil
	if (proto == "tcp" || proto == "tls" || proto == "gnet") && r.p(0.4) {
		// raw frame with a lying prefix
		l := []int{0, 1, len(b) + 10, 65535, len(b) / 2}[r.intn(5)]
		if r.p(0.4) {
			// a declared length of every buffer size class, with fewer bytes
			// following (the connection then idles or ends inside the body)
			l = []int{2, 5, 13, 17, 20, 24, 30, 32, 33, 40, 64, 100, 300, 1000, 5000}[r.intn(15)]
			if len(b) >= l {
				b = b[:r.intn(l)]
			}
		}
		op.Raw = append([]byte{byte(l >> 8), byte(l)}, b...)
		op.Method = "rawframe"
	}
	if proto == "http" || proto == "https" || proto == "fasthttp" {
		if r.p(0.5) {
			op.HTTPVariant = []string{"bad_accept", "bad_ctype", "bad_b64", "put", "raw_no_length", "raw_no_length_close", "raw_chunked", "raw_chunk_garbage", "raw_short_body", "raw_huge_length", "raw_neg_length", "raw_http10", "raw_get_no_param", "raw_get_empty_param", "raw_garbage_line", "raw_long_header"}[r.intn(16)]
			if op.HTTPVariant == "bad_accept" || op.HTTPVariant == "bad_b64" {
				op.Method = "GET"
			} else if op.HTTPVariant == "bad_ctype" {
				op.Method = "POST"
			}
		}
	}
}

// specialize applies focus-specific edits that are easier to express on the
// finished plan.
func specialize(r *rng, p *plan.Plan, focus, arm string) {
	rp := p.Router
	if arm == "prefetch" {
		// cache hits in the last quarter of the lifetime: background refreshes
		// running next to other requests (used by C04, C10 and C20)
		if rp.Cache.MemSize == 0 {
			rp.Cache.MemSize = 8 << 20
		}
		genCacheOps(r, p, "C19", arm)
		// plus unrelated traffic right after the hits, so that recycled objects are picked up
		n := len(rp.Ops)
		for i := 0; i < n; i++ {
			if !r.p(0.5) {
				continue
			}
			o := rp.Ops[i]
			ci := len(rp.Conns)
			cc := rp.Conns[o.Conn]
			cc.Idx = ci
			rp.Conns = append(rp.Conns, cc)
			idx := len(rp.Ops)
			tok := fmt.Sprintf("t%d", 1000+idx)
			op := plan.ClientOp{Idx: idx, Conn: ci, AtUs: o.AtUs + r.i64(0, 400), ID: uint16(r.u64()), Token: tok, NQ: 1, Class: 1, Type: o.Type, Bits: refdns.BitRD, Method: o.Method}
			ls := append([][]byte{[]byte(tok)}, labelsOf(r.pick(zones))...)
			for j := range ls {
				ls[j] = mixCase(r, ls[j])
			}
			op.Labels = ls
			rp.Ops = append(rp.Ops, op)
			rp.Tokens[tok] = &plan.TokenSpec{Ans: plan.AnswerSpec{NAn: 2, TTLs: []uint32{60}, Shape: "plain"}, Acts: []plan.UpAction{{Kind: "reply", DelayUs: r.i64(100, 20000)}}}
		}
		return
	}
	switch focus {
	case "C15":
		genC15(r, p)
	case "C11":
		genC11(r, p)
	case "C18", "C10":
		switch arm {
		case "rclose":
			var last int64
			for _, o := range rp.Ops {
				if o.AtUs > last {
					last = o.AtUs
				}
			}
			rp.CloseAtUs = r.i64(1000, last+2_000_000)
			if r.p(0.3) {
				rp.MetricsAddr = "127.0.0.1:9153"
			}
		case "startfault":
			kinds := []string{"addr_in_use", "bad_pem", "bad_proto", "bad_scheme", "missing_file", "bad_ca", "no_cert", "dup_tag", "dup_tag_quic", "unknown_upstream_tag", "bad_ipmarker", "bad_ipmarker"}
			if focus == "C10" {
				kinds = []string{"dup_tag", "dup_set_tag", "unknown_upstream_tag", "unknown_domain_tag", "missing_tag", "missing_addr", "dup_tag_quic"}
			}
			rp.StartFault = &plan.StartFault{Kind: kinds[r.intn(len(kinds))], Pos: r.intn(8)}
			if r.p(0.5) {
				rp.MetricsAddr = "127.0.0.1:9153" // the first thing run() starts
			}
			rp.Ops, rp.Conns = nil, nil
			rp.HorizonUs = 1_000_000
			if rp.StartFault.Kind == "bad_ipmarker" && r.p(0.6) {
				rp.Cache.Redis = &plan.RedisSpec{LatUs: [2]int64{100, 600}}
			}
		}
	case "C17":
		if arm == "pair" {
			genC17pair(r, p)
			return
		}
		// mtls arm: TLS-based listeners that verify client certificates
		for i := range rp.Servers {
			switch rp.Servers[i].Proto {
			case "tls", "https", "quic":
				rp.Servers[i].MTLS = true
			}
		}
		for i := range rp.Conns {
			rp.Conns[i].ClientCert = []string{"", "good", "otherca", "", "otherca", "plain", "expired", "selfsigned", "notyet", "good"}[r.intn(10)]
			if rp.Conns[i].ClientCert != "good" && r.p(0.4) {
				rp.Conns[i].PlainAfterFail = true
			}
		}
	case "C07", "C08", "C19":
		genCacheOps(r, p, focus, arm)
	case "C01":
		// liveness probes: one valid op per listener after everything else, on a fresh transport
		var last int64
		for _, o := range rp.Ops {
			if o.AtUs > last {
				last = o.AtUs
			}
		}
		// two probe phases: shortly after the last garbage input, and after the
		// connections that carried it have ended (a frame cut short is only
		// given up by the server when its connection closes or idles out)
		for phase, at := range []int64{last + 1_500_000, last + 10_000_000} {
			for si, srv := range rp.Servers {
				// one probe, or a burst of probes from separate connections whose
				// frames arrive in pieces: whatever the garbage did to shared state
				// (pooled buffers in particular) has concurrent users to show in
				burst := 1
				if r.p(0.6) {
					burst = r.rng(2, 12)
				}
				for k := 0; k < burst; k++ {
					ci := len(rp.Conns)
					src := "192.0.2.250"
					if strings.HasPrefix(srv.Listen, "[::1]") {
						src = "2001:db8:a::fa"
					}
					cc := plan.ClientConn{Idx: ci, Server: si, Src: src, LingerUs: 8_000_000}
					if burst > 1 && r.p(0.7) {
						cc.SegMode, cc.SegBytes = 1+r.intn(3), r.rng(1, 9)
					}
					rp.Conns = append(rp.Conns, cc)
					idx := len(rp.Ops)
					tok := fmt.Sprintf("t%d", idx)
					op := plan.ClientOp{Idx: idx, Conn: ci, AtUs: at + int64(si)*1000 + int64(k)*int64(r.rng(0, 200)), ID: uint16(0x7000 + phase*1024 + si*64 + k), Token: tok, NQ: 1, Class: 1, Type: 1, Bits: refdns.BitRD, Probe: true,
						Labels: append([][]byte{[]byte(tok)}, labelsOf("example.com")...)}
					if srv.Proto == "http" || srv.Proto == "fasthttp" || srv.Proto == "https" {
						op.Method = "GET"
					}
					rp.Ops = append(rp.Ops, op)
					rp.Tokens[tok] = &plan.TokenSpec{Ans: plan.AnswerSpec{NAn: 1, TTLs: []uint32{60}, Shape: "plain"}, Acts: []plan.UpAction{{Kind: "reply", DelayUs: int64(r.rng(300, 20_000))}}}
				}
			}
		}
		rp.HorizonUs = last + 10_000_000 + 8_000_000 + 12_000_000
	case "C09":
		if arm == "clean" && r.p(0.1) {
			// a global limit that almost every query runs into: the refusal the
			// listener makes up echoes the query's questions and has to respect
			// the size limit like any other response (several questions under a
			// name of 250 octets do not fit 512)
			rp.Limiter.Global = r.rng(1, 3)
			for i := range rp.Ops {
				o := &rp.Ops[i]
				if o.Raw != nil || rp.Servers[rp.Conns[o.Conn].Server].Proto != "udp" || !r.p(0.6) {
					continue
				}
				o.NQ = r.rng(3, 6)
				o.DistinctQ = true
				o.Labels = fillName(r, o.Labels)
				if o.EDNS != nil && r.p(0.5) {
					o.EDNS.UDPSize = []uint16{512, 600, 1232}[r.intn(3)]
				}
			}
		}
	case "C13", "C12":
		if arm == "overload" {
			// one burst per connection, upstream holds every reply for 2 s
			for i := range rp.Servers {
				rp.Servers[i].MaxConcurrent = int32(r.rng(1, 8))
			}
			for i := range rp.Conns {
				rp.Conns[i].Coalesce = true
				rp.Conns[i].Straddle = false // a burst is sent whole
			}
			t0 := map[int]int64{}
			for i := range rp.Ops {
				o := &rp.Ops[i]
				if _, ok := t0[o.Conn]; !ok {
					t0[o.Conn] = o.AtUs
				}
				o.AtUs = t0[o.Conn]
				o.Bits = refdns.BitRD
				o.NQ = 1
			}
			for _, t := range rp.Tokens {
				t.Acts = []plan.UpAction{{Kind: "reply", DelayUs: 2_000_000 + r.i64(0, 500_000)}}
			}
			// second phase: long after the burst has been answered the same
			// connection asks again, never more at once than the limit allows:
			// none of these may be refused (the limit counts queries in flight,
			// not queries ever refused)
			if r.p(0.7) {
				nconn := map[int]int{}
				used := map[[2]int]bool{}
				for _, o := range rp.Ops {
					nconn[o.Conn]++
					used[[2]int{o.Conn, int(o.ID)}] = true
				}
				conns := make([]int, 0, len(t0))
				for c := range t0 {
					conns = append(conns, c)
				}
				sort.Ints(conns)
				for _, c := range conns {
					lim := int(rp.Servers[rp.Conns[c].Server].MaxConcurrent)
					if nconn[c] <= lim {
						continue
					}
					at := t0[c] + 4_500_000
					for round := r.rng(1, 3); round > 0; round-- {
						n2 := r.rng(1, lim)
						for j := 0; j < n2; j++ {
							idx := len(rp.Ops)
							tok := fmt.Sprintf("t%d", idx)
							id := uint16(0x4000 + idx)
							for used[[2]int{c, int(id)}] {
								id += 0x1001
							}
							used[[2]int{c, int(id)}] = true
							rp.Ops = append(rp.Ops, plan.ClientOp{Idx: idx, Conn: c, AtUs: at, ID: id, Token: tok, NQ: 1, Class: 1, Type: 1, Bits: refdns.BitRD,
								Labels: append([][]byte{[]byte(tok)}, labelsOf("example.com")...)})
							rp.Tokens[tok] = &plan.TokenSpec{Ans: plan.AnswerSpec{NAn: 1, TTLs: []uint32{60}, Shape: "plain"}, Acts: []plan.UpAction{{Kind: "reply", DelayUs: r.i64(300, 300_000)}}}
						}
						at += 1_500_000
					}
					if at+12_000_000 > rp.HorizonUs {
						rp.HorizonUs = at + 12_000_000
					}
				}
			}
			rp.Rules = []plan.RuleSpec{{Forward: rp.Upstreams[0].Tag}}
			rp.DomainSets = nil
			rp.Cache.MemSize = 0
		}
	}
}

// genCacheOps replaces the client side of the plan with a workload made for
// the cache properties: few keys, many timed repeats from clients of
// different groups, one transport per operation.
func genCacheOps(r *rng, p *plan.Plan, focus, arm string) {
	rp := p.Router
	rp.Conns, rp.Ops = nil, nil
	rp.Tokens = map[string]*plan.TokenSpec{}
	rp.Rules = []plan.RuleSpec{{Forward: rp.Upstreams[0].Tag}}
	if len(rp.Upstreams) > 1 && r.p(0.5) {
		rp.DomainSets = []plan.DomainSetSpec{{Tag: "set0", Files: [][]string{{"test.org"}}}}
		rp.Rules = []plan.RuleSpec{{Domain: "set0", Forward: rp.Upstreams[1].Tag}, {Forward: rp.Upstreams[0].Tag}}
	} else {
		rp.DomainSets = nil
	}
	for i := range rp.Servers {
		rp.Servers[i].MTLS = false
	}
	// /24- and /56-aligned ranges so that an ECS prefix identifies the group
	if len(rp.Cache.IpMarker) > 0 {
		rp.Cache.IpMarker = []plan.RangeSpec{
			{Start: "192.0.2.0", End: "192.0.2.255", Label: "net-a"}, {Start: "198.51.100.0", End: "198.51.100.255", Label: "net-b"},
			{Start: "203.0.113.0", End: "203.0.113.255", Label: "net-a"},
			{Start: "2001:db8:a::", End: "2001:db8:a:ff:ffff:ffff:ffff:ffff", Label: "net-a"},
			{Start: "2001:db8:b::", End: "2001:db8:b:ff:ffff:ffff:ffff:ffff", Label: "net-c"},
		}
	}
	srcs4 := []string{"192.0.2.7", "192.0.2.200", "198.51.100.9", "203.0.113.77", "100.64.1.1"}
	srcs6 := []string{"2001:db8:a::5", "2001:db8:b:12::9", "2001:db8:ffff::1"}
	if len(rp.Cache.IpMarker) > 0 {
		// first / last addresses of ranges, neighbours just outside, a one-address range
		rp.Cache.IpMarker = append(rp.Cache.IpMarker, plan.RangeSpec{Start: "100.64.1.1", End: "100.64.1.1", Label: "net-d"})
		srcs4 = append(srcs4, "192.0.2.0", "192.0.2.255", "192.0.3.0", "198.51.100.0", "203.0.113.255", "100.64.1.0", "100.64.1.2")
		srcs6 = append(srcs6, "2001:db8:a::", "2001:db8:a:ff:ffff:ffff:ffff:ffff", "2001:db8:a:100::", "2001:db8:b::")
	}
	nk := r.rng(1, 4)
	// many entries enter their last quarter together while the upstream is slow:
	// a refresh per entry is in flight at the same time, and every hit still
	// has to be answered at once
	many := focus == "C19" && arm != "prefetch" && r.p(0.12)
	manyLife := int64([]int{8, 20, 60}[r.intn(3)])
	if many {
		nk = r.rng(18, 30)
	}
	var last int64
	for k := 0; k < nk; k++ {
		tok := fmt.Sprintf("t%d", k)
		zone := r.pick(zones)
		qtype := []uint16{1, 28, 16, 15, 5}[r.intn(5)]
		t := &plan.TokenSpec{}
		a := &t.Ans
		a.Shape = []string{"plain", "plain", "plain", "srv", "mixed", "suffix"}[r.intn(6)]
		a.NAn, a.NNs, a.NAr = r.rng(1, 3), r.intn(2), r.intn(2)
		a.Compress = r.intn(4)
		if focus == "C07" && r.p(0.15) {
			// fits a stream on the wire thanks to compression, not when written
			// out in full (the form the cache keeps)
			a.PadTo = []int{66000, 70000, 64000}[r.intn(3)]
			a.Compress = 1 + r.intn(3)
		}
		var life int64 // seconds
		switch focus {
		case "C19":
			life = int64([]int{4, 8, 20, 60, 300, 600}[r.intn(6)])
			a.TTLs = []uint32{uint32(life), uint32(life + int64(r.intn(100)))}
		case "C08":
			a.TTLs = nil
			for n := r.rng(1, 3); n > 0; n-- {
				a.TTLs = append(a.TTLs, []uint32{0, 1, 2, 3, 5, 10, 30, 60, 300, 4294967295, 86400}[r.intn(11)])
			}
			if r.p(0.35) {
				a.Rcode = []int{3, 2, 5, 1, 9}[r.intn(5)]
				if r.p(0.5) {
					a.NAn = 0
				}
				if r.p(0.3) {
					a.NAn, a.NNs, a.NAr = 0, 0, 0
				}
			}
			if r.p(0.1) {
				a.NAn, a.NNs, a.NAr = 0, 0, 0
			}
			if r.p(0.12) {
				a.Bits |= refdns.BitTC
			}
			life = 30
			min := uint32(0xffffffff)
			for _, x := range a.TTLs {
				if x < min {
					min = x
				}
			}
			if int64(min) < life {
				life = int64(min)
			}
			if life < 2 {
				life = 2
			}
		default:
			life = int64([]int{5, 10, 30, 60, 600}[r.intn(5)])
			a.TTLs = []uint32{uint32(life), uint32(life * 2)}
		}
		if focus == "C19" && a.Rcode == 0 && r.p(0.12) {
			// NODATA: no answer records, an authority record (which carries the
			// metadata); as much an entry to be refreshed as any other
			a.NAn, a.NNs = 0, r.rng(1, 2)
		}
		delay := func() int64 { return r.i64(200, 40_000) }
		t.Acts = []plan.UpAction{{Kind: "reply", DelayUs: delay()}}
		tcRefresh, twinMiss, leftover, failFirst := false, false, false, false
		switch focus {
		case "C19":
			// the refresh: slow, failing, negative or truncated
			switch r.intn(7) {
			case 5:
				// the refresh comes back with a much lower TTL than what is left
				// of the old entry: it takes the entry's place all the same
				if a.Rcode == 0 && a.NAn > 0 && life >= 10 {
					low := *a
					low.TTLs = []uint32{uint32(r.rng(1, 2))}
					t.Ans2, t.Ans2From = &low, 1
				}
				t.Acts = append(t.Acts, plan.UpAction{Kind: "reply", DelayUs: delay()})
			case 0:
				t.Acts = append(t.Acts, plan.UpAction{Kind: "reply", DelayUs: r.i64(1000, 5_500_000)})
			case 1:
				t.Acts = append(t.Acts, plan.UpAction{Kind: "silent"}, plan.UpAction{Kind: "reply", DelayUs: delay()})
			case 2:
				neg := *a
				neg.Rcode, neg.NAn = []int{3, 2, 5}[r.intn(3)], 0
				t.Ans2, t.Ans2From = &neg, 1
				t.Acts = append(t.Acts, plan.UpAction{Kind: "reply", DelayUs: r.i64(1000, 2_000_000)})
			case 3:
				t.Acts = append(t.Acts, plan.UpAction{Kind: "garbage", Raw: []byte{1, 2, 3}, DelayUs: delay()}, plan.UpAction{Kind: "reply", DelayUs: delay()})
			case 4:
				if r.p(0.5) {
					// the refresh comes back truncated (no records, or some): not
					// an answer that may take the entry's place
					trunc := *a
					trunc.Bits |= refdns.BitTC
					if r.p(0.5) {
						trunc.NAn = 0
					}
					t.Ans2, t.Ans2Only = &trunc, []int{1}
				}
				t.Acts = append(t.Acts, plan.UpAction{Kind: "reply", DelayUs: delay()})
			default:
				t.Acts = append(t.Acts, plan.UpAction{Kind: "reply", DelayUs: delay()})
			}
		case "C08":
			if r.p(0.3) {
				// a later generation turns negative (or positive): displacement scenarios
				alt := *a
				if a.Rcode == 0 {
					alt.Rcode, alt.NAn = []int{3, 2, 5}[r.intn(3)], 0
				} else {
					alt.Rcode, alt.NAn = 0, 2
				}
				alt.Bits &^= refdns.BitTC
				t.Ans2, t.Ans2From = &alt, r.rng(1, 2)
			}
			if r.p(0.15) {
				t.Acts = append([]plan.UpAction{{Kind: []string{"silent", "fin", "garbage"}[r.intn(3)], Raw: []byte{9}, DelayUs: delay()}}, t.Acts...)
				// the same question again right after the failure, the upstream
				// healthy by then: what the proxy answered the failed exchange
				// with must not have been kept
				failFirst = t.Acts[0].Kind != "silent" && r.p(0.7)
			}
			if a.Rcode == 0 && a.Bits&refdns.BitTC == 0 && r.p(0.12) {
				// an entry expires; right afterwards - its remains may still sit in
				// the backend - two queries miss together and their exchanges come
				// back in the same instant, one with an error, one with the answer
				alt := *a
				alt.Rcode, alt.NAn = []int{2, 5, 3}[r.intn(3)], 0
				life = int64(r.rng(2, 4))
				a.TTLs = []uint32{uint32(life)}
				t.Ans2, t.Ans2Only = &alt, []int{[]int{1, 2}[r.intn(2)]}
				d := r.i64(2_000, 30_000)
				t.Acts = []plan.UpAction{{Kind: "reply", DelayUs: r.i64(2_000, 20_000)}, {Kind: "reply", DelayUs: d}, {Kind: "reply", DelayUs: d + r.i64(-30, 30)}, {Kind: "reply", DelayUs: delay()}}
				leftover = true
				// the two answers have to reach the proxy within microseconds of
				// each other: a quiet network, and scheduling points switched on
				rp.Net.UpLatUs = [2]int64{50, 60}
				p.Knobs.YieldDensity, p.Knobs.YieldMask = 0.9, 0
			}
			if !leftover && a.Rcode == 0 && a.Bits&refdns.BitTC == 0 && life >= 4 && r.p(0.15) {
				// two first queries miss together; the upstream answers the first
				// exchange properly and the second, a little later, with an error:
				// the error arrives while the positive entry is fresh
				alt := *a
				alt.Rcode, alt.NAn = []int{2, 5, 2, 3}[r.intn(4)], 0
				t.Ans2, t.Ans2From = &alt, 1
				t.Acts = []plan.UpAction{{Kind: "reply", DelayUs: r.i64(2_000, 20_000)}, {Kind: "reply", DelayUs: r.i64(40_000, 200_000)}, {Kind: "reply", DelayUs: delay()}}
				twinMiss = true
			}
			if a.Rcode == 0 && a.Bits&refdns.BitTC == 0 && life >= 4 && r.p(0.25) {
				// the background refresh (second fetch) is answered with TC:
				// every path into the cache has to refuse a truncated answer
				alt := *a
				alt.Bits |= refdns.BitTC
				t.Ans2, t.Ans2From = &alt, 1
				t.Acts = []plan.UpAction{{Kind: "reply", DelayUs: delay()}}
				tcRefresh = true
			}
		}
		if many {
			life = manyLife
			a.TTLs = []uint32{uint32(life)}
			a.PadTo = 0
			t.Ans2, t.Ans2From = nil, 0
			t.Acts = []plan.UpAction{{Kind: "reply", DelayUs: delay()}, {Kind: []string{"reply", "reply", "silent"}[r.intn(3)], DelayUs: r.i64(2_000_000, 5_500_000)}, {Kind: "reply", DelayUs: delay()}}
		}
		rp.Tokens[tok] = t
		// operations on this key
		t0 := r.i64(20_000, 2_000_000)
		nops := r.rng(3, 30)
		if many {
			t0 = 20_000 + int64(k)*r.i64(500, 4000)
			nops = 3
		}
		span := life * 1_000_000 * int64(r.rng(1, 3))
		leftoverGap := r.rng(0, 2_200_000)
		if leftover {
			nops = 6
		}
		// a real burst: several hits while one refresh is in flight and when
		// its answer is stored (the spread follows the refresh's duration)
		burstAt, burstSpread, rd := int64(0), int64(0), int64(0)
		if !many && (focus == "C19" || focus == "C07" && arm != "ample") && r.p(0.5) {
			burstAt = t0 + life*1_000_000*int64(76+r.intn(20))/100
			rd = t.Acts[len(t.Acts)-1].DelayUs
			if len(t.Acts) > 1 {
				rd = t.Acts[1].DelayUs
			}
			burstSpread = rd + 2*rp.Net.UpLatUs[1] + 4000
			nops = max(nops, 8)
		}
		for i := 0; i < nops; i++ {
			var at int64
			switch {
			case i == 0:
				at = t0
			case leftover && (i == 1 || i == 2):
				// (the backend's clock ticks once a second: 2 s after the expiry
				// time nothing is a hit any more)
				at = t0 + life*1_000_000 + 300_000 + int64(leftoverGap) + int64(i-1)*r.i64(0, 40)
			case leftover && i < 7:
				at = t0 + life*1_000_000 + 600_000 + int64(leftoverGap) + r.i64(0, life*700_000)
			case failFirst && !leftover && !twinMiss && i >= 1 && i <= 3:
				at = t0 + t.Acts[0].DelayUs + r.i64(20_000, 1_800_000)
			case twinMiss && i == 1:
				at = t0 + r.i64(100, 1500) // misses too: the first exchange is still out
			case twinMiss && i < 5:
				at = t0 + r.i64(400_000, life*1_000_000*70/100)
			case many && i == 1:
				at = 20_000 + life*1_000_000*80/100 + r.i64(0, 150_000)
			case many:
				at = 20_000 + life*1_000_000*80/100 + r.i64(200_000, 1_800_000)
			case burstAt > 0 && i == 1:
				at = burstAt // the hit that starts the refresh
			case burstAt > 0 && r.p(0.6):
				// around the instant the refresh's answer is stored
				at = burstAt + rd/2 + r.i64(0, burstSpread)
			case focus == "C19" && r.p(0.7):
				// inside / around the last quarter, in bursts
				at = t0 + life*1_000_000*int64(70+r.intn(32))/100 + r.i64(0, 3000)
			case focus == "C08" && tcRefresh && r.p(0.7):
				// a hit in the last quarter starts the refresh; later ones
				// would be served what it stored
				at = t0 + life*1_000_000*int64(76+r.intn(23))/100 + r.i64(0, 300_000)
			case focus == "C08" && r.p(0.4):
				// around expiry
				at = t0 + life*1_000_000 + r.i64(-2_500_000, 3_500_000)
			default:
				at = t0 + r.i64(1000, span+1000)
			}
			if burstAt > 0 && at > t0+life*1_000_000*72/100 && at < burstAt {
				// nothing else in the last quarter before the burst: its first hit
				// is the one that starts the refresh
				at = burstAt + rd/2 + r.i64(0, burstSpread)
			}
			if at < 10_000 {
				at = 10_000
			}
			si := r.intn(len(rp.Servers))
			srv := rp.Servers[si]
			ci := len(rp.Conns)
			cc := plan.ClientConn{Idx: ci, Server: si, LingerUs: 8_000_000}
			switch {
			case strings.HasPrefix(srv.Listen, "127.") || strings.HasPrefix(srv.Listen, "0.0.0.0"):
				cc.Src = r.pick(srcs4)
			case strings.HasPrefix(srv.Listen, "[::1]"):
				cc.Src = r.pick(srcs6)
			default:
				if r.p(0.6) {
					cc.Src = r.pick(srcs4)
				} else {
					cc.Src = r.pick(srcs6)
				}
			}
			cc.HTTP2 = srv.Proto == "https" && r.p(0.5)
			if srv.ClientAddrHeader != "" && r.p(0.5) {
				cc.XFF = []string{"203.0.113.9", "2001:db8:b::77", "192.0.2.44"}[r.intn(3)]
			}
			rp.Conns = append(rp.Conns, cc)
			op := plan.ClientOp{Idx: len(rp.Ops), Conn: ci, AtUs: at, ID: uint16(r.u64()), Token: tok, NQ: 1, Class: 1, Type: qtype, Bits: refdns.BitRD}
			ls := append([][]byte{[]byte(tok)}, labelsOf(zone)...)
			for j := range ls {
				ls[j] = mixCase(r, ls[j])
			}
			op.Labels = ls
			if r.p(0.12) {
				op.Type = qtype + 1 // another key, same token
			} else if r.p(0.08) {
				op.Class = 3
			}
			if r.p(0.5) {
				op.EDNS = &plan.EDNSSpec{UDPSize: []uint16{512, 1232, 4096}[r.intn(3)]}
			}
			if srv.Proto == "http" || srv.Proto == "fasthttp" || srv.Proto == "https" {
				op.Method = []string{"GET", "POST"}[r.intn(2)]
			}
			rp.Ops = append(rp.Ops, op)
			if at > last {
				last = at
			}
		}
	}
	rp.HorizonUs = last + 8_000_000 + 12_000_000
	p.Knobs.GCEveryUs = 0
}

var oddLabels = [][]byte{
	[]byte("a"), []byte("a\x00"), []byte("b"), []byte("ab"), []byte("x\x07y"), []byte("\xff\xfe"), []byte("w-w"), []byte("7"), []byte("\x07"),
	[]byte("a\\b"), []byte("UP"), []byte("up"), []byte("abcdefghijklmnopqrstuvwx"), []byte("abcdefghijklmnopqrstuvwxy"), []byte("abcdefghijklmnopqrstuvwx\x00"),
	[]byte("0"), []byte("-"), []byte("_srv"), []byte("a b"), []byte("caf\xc3\xa9"),
	// the ends of the alphabet and their neighbours in ASCII (case folding), more octets below 100
	[]byte("zz"), []byte("Zone"), []byte("quiz"), []byte("AZ"), []byte("az"), []byte("@a"), []byte("[b"), []byte("`c"), []byte("{d"), []byte("_dmarc"), []byte("*"), []byte("a/b"), []byte("\x01" + "23"),
}

// fileSafe reports whether a label can be written into a domain file entry.
func fileSafe(l []byte) bool {
	for i, c := range l {
		if c == '\n' || c == '\r' || c == '#' || c == '.' || c == ':' {
			return false
		}
		if (i == 0 || i == len(l)-1) && (c == ' ' || c == '\t' || c == 0x0b || c == 0x0c || c == 0x85 || c == 0xa0) {
			return false
		}
	}
	return len(l) > 0
}

// genC11 makes a configuration in which routing reveals the match result of
// one domain set: rule 1 forwards matches to up1, rule 2 forwards the rest to up0.
func genC11(r *rng, p *plan.Plan) {
	rp := p.Router
	for len(rp.Upstreams) < 2 {
		rp.Upstreams = append(rp.Upstreams, upSpec(r, len(rp.Upstreams), "udp"))
	}
	rp.Upstreams = rp.Upstreams[:2]
	rp.Rules = []plan.RuleSpec{{Domain: "set0", Forward: rp.Upstreams[1].Tag, Reverse: r.p(0.15)}, {Forward: rp.Upstreams[0].Tag}}
	rp.Cache.MemSize = 0
	// a pool of names over a small alphabet of labels, so that parents, children,
	// siblings and near-misses of entries are asked
	base := [][]byte{[]byte("com"), []byte("org"), []byte("example"), []byte("test"), []byte("www"), []byte("xexample")}
	pool := append([][]byte{}, base...)
	for n := r.rng(2, 6); n > 0; n-- {
		pool = append(pool, oddLabels[r.intn(len(oddLabels))])
	}
	mkName := func(k int) [][]byte {
		var ls [][]byte
		for i := 0; i < k; i++ {
			ls = append(ls, pool[r.intn(len(pool))])
		}
		return ls
	}
	render := func(ls [][]byte) (string, bool) {
		var parts []string
		for _, l := range ls {
			if !fileSafe(l) {
				return "", false
			}
			parts = append(parts, string(l))
		}
		return strings.Join(parts, "."), true
	}
	var entryNames [][][]byte
	var files [][]string
	nf := r.rng(1, 3)
	for f := 0; f < nf; f++ {
		var lines []string
		for n := r.rng(1, 7); n > 0; n-- {
			var ls [][]byte
			switch {
			case len(entryNames) > 0 && r.p(0.35): // parent, child or duplicate of an earlier entry
				prev := entryNames[r.intn(len(entryNames))]
				switch r.intn(3) {
				case 0:
					ls = append([][]byte{pool[r.intn(len(pool))]}, prev...)
				case 1:
					if len(prev) > 1 {
						ls = prev[1:]
					} else {
						ls = prev
					}
				default:
					ls = prev
				}
			default:
				ls = mkName(r.rng(1, 3))
			}
			txt, ok := render(ls)
			if !ok {
				continue
			}
			entryNames = append(entryNames, ls)
			if r.p(0.2) {
				txt = strings.ToUpper(txt)
			}
			switch r.intn(7) {
			case 0:
				lines = append(lines, "full:"+txt)
			case 1:
				lines = append(lines, "domain:"+txt)
			case 2:
				lines = append(lines, txt+".")
			case 3:
				lines = append(lines, "  "+txt+"   # note")
			default:
				lines = append(lines, txt)
			}
		}
		if r.p(0.25) {
			lines = append(lines, "regexp:"+[]string{`^t[0-9]+\.www\.`, `\.7\.`, `\\007`, `^[^.]+\.a\\000\.`, `example\.com$`, `\\\\`, `\\095srv`, `\\095dmarc\.`, `a\\032b`, `\.\\042\.`, `\\123`, `a\\047b`, `^[^.]+\.....\.`, `^\D+\.www\.`, `^t\d+\.\D`, `\Aw`, `^t[0-9]+\.\S+\.\S+$`, `\Bexample`, `^[^.]+\.(?P<zone>org|com)$`, `\W[0-9]{3}\W`}[r.intn(20)])
		}
		if r.p(0.3) {
			lines = append(lines, "", "# comment", "   ")
		}
		files = append(files, lines)
	}
	rp.DomainSets = []plan.DomainSetSpec{{Tag: "set0", Files: files}}
	for j := range files {
		// a file whose last line is not terminated (it may also end in a comment)
		if r.p(0.3) {
			rp.DomainSets[0].NoFinalNewline = append(rp.DomainSets[0].NoFinalNewline, j)
		}
	}
	// queries: token label + (entry | child | sibling | parent | near miss)
	for i := range rp.Ops {
		op := &rp.Ops[i]
		if op.Raw != nil || len(op.Labels) == 0 {
			continue
		}
		var rest [][]byte
		if len(entryNames) > 0 && r.p(0.8) {
			e := entryNames[r.intn(len(entryNames))]
			switch r.intn(5) {
			case 0:
				rest = e
			case 1:
				rest = append([][]byte{pool[r.intn(len(pool))]}, e...)
			case 2:
				if len(e) > 1 {
					rest = e[1:]
				} else {
					rest = e
				}
			case 3: // near miss: glue a prefix onto the first label / add a NUL
				f := append([]byte("x"), e[0]...)
				if r.p(0.5) {
					f = append(append([]byte{}, e[0]...), 0)
				}
				rest = append([][]byte{f}, e[1:]...)
			default:
				rest = append(append([][]byte{}, e[:len(e)-1]...), pool[r.intn(len(pool))])
			}
		} else {
			rest = mkName(r.rng(1, 3))
		}
		ls := [][]byte{op.Labels[0]}
		// half of the queries carry the token as an extra leftmost label (a child of
		// the name under test); the others put the name under test right after it
		for _, l := range rest {
			if len(l) > 63 {
				l = l[:63]
			}
			ls = append(ls, mixCase(r, l))
		}
		op.Labels = ls
		op.Bits = refdns.BitRD
		op.NQ = 1
	}
}

// genC17pair: two upstreams whose URLs name the same host (and so lead to the
// same server) with different trust settings; the first can authenticate the
// server, the second - in three runs out of four - cannot.  Whatever one
// upstream has established (connections, TLS sessions) must not let the
// other's exchanges succeed.
func genC17pair(r *rng, p *plan.Plan) {
	rp := p.Router
	kind := r.pick([]string{"tls", "tls+pipeline", "https", "quic", "h3", "tls", "https"})
	rp.Servers = []plan.ServerSpec{{Tag: "s0", Proto: r.pick([]string{"udp", "tcp"}), Listen: "127.0.0.1:5300"}}
	port := map[string]int{"tls": 853, "tls+pipeline": 853, "https": 443, "quic": 853, "h3": 443}[kind]
	addr := kind + "://pair.upstream.test"
	if kind == "https" || kind == "h3" {
		addr += "/dns-query"
	}
	a := plan.UpstreamSpec{Tag: "up0", Kind: kind, Host: "10.1.0.10", Port: port, Addr: addr, TLS: "good", UseCA: true}
	b := plan.UpstreamSpec{Tag: "up1", Kind: kind, Port: port, Addr: addr}
	switch r.intn(4) {
	case 0:
		b.UseCA = true // control: the same trust, may succeed
	case 1, 2:
		b.MustFail = true // no ca: the system roots, which do not hold the server's issuer
	default:
		b.OtherCA, b.MustFail = true, true
	}
	rp.Upstreams = []plan.UpstreamSpec{a, b}
	rp.DomainSets = []plan.DomainSetSpec{{Tag: "setb", Files: [][]string{{"domain:b.pair.test"}}}}
	rp.Rules = []plan.RuleSpec{{Domain: "setb", Forward: "up1"}, {Forward: "up0"}}
	rp.Cache = plan.CacheSpec{}
	rp.Limiter = plan.LimiterSpec{}
	rp.ECS, rp.LogQueries, rp.StartFault, rp.CloseAtUs, rp.MetricsAddr = false, false, nil, 0, ""
	rp.Conns, rp.Ops = nil, nil
	rp.Tokens = map[string]*plan.TokenSpec{}
	add := func(at int64, zone string) {
		ci, idx := len(rp.Conns), len(rp.Ops)
		rp.Conns = append(rp.Conns, plan.ClientConn{Idx: ci, Server: 0, Src: "192.0.2.7", LingerUs: 8_000_000})
		tok := fmt.Sprintf("t%d", idx)
		rp.Ops = append(rp.Ops, plan.ClientOp{Idx: idx, Conn: ci, AtUs: at, ID: uint16(0x3000 + idx*7), Token: tok, NQ: 1, Class: 1, Type: 1, Bits: refdns.BitRD,
			Labels: append([][]byte{[]byte(tok)}, labelsOf(zone)...)})
		rp.Tokens[tok] = &plan.TokenSpec{Ans: plan.AnswerSpec{NAn: 1, TTLs: []uint32{60}, Shape: "plain"}, Acts: []plan.UpAction{{Kind: "reply", DelayUs: r.i64(100, 3000)}}}
	}
	zones := []string{"a.pair.test", "b.pair.test"}
	if r.p(0.25) {
		zones[0], zones[1] = zones[1], zones[0] // the one that cannot authenticate goes first
	}
	t := int64(20_000)
	for round := r.rng(1, 3); round > 0; round-- {
		for _, z := range zones {
			for n := r.rng(1, 4); n > 0; n-- {
				add(t, z)
				t += r.i64(0, 40_000)
			}
			// sometimes long enough for idle connections to be dropped
			t += []int64{50_000, 400_000, 3_000_000, 12_000_000, 35_000_000}[r.intn(5)]
		}
	}
	rp.HorizonUs = t + 8_000_000 + 12_000_000
	p.Knobs.OldTLSResume = r.p(0.7)
}

// genC15 configures the limiter and a workload of a few heavy subnets plus
// light "victim" subnets that stay far inside their own budget.
func genC15(r *rng, p *plan.Plan) {
	rp := p.Router
	rp.Rules = []plan.RuleSpec{{Forward: rp.Upstreams[0].Tag}}
	rp.DomainSets = nil
	rp.Cache.MemSize = 0
	rp.Limiter = plan.LimiterSpec{Limit: []int{2, 5, 20}[r.intn(3)], Burst: []int{0, 100, 200}[r.intn(3)]}
	if r.p(0.3) {
		rp.Limiter.V4Mask = []int{16, 24, 32}[r.intn(3)]
	}
	if r.p(0.3) {
		rp.Limiter.V6Mask = []int{48, 56, 64}[r.intn(3)]
	}
	for i := range rp.Servers {
		// behind a reverse proxy: the client is who the header says, and its
		// subnet - not the proxy's - is what the query is charged to
		rp.Servers[i].ClientAddrHeader = ""
		if pr := rp.Servers[i].Proto; (pr == "http" || pr == "https") && r.p(0.5) {
			rp.Servers[i].ClientAddrHeader = "X-Forwarded-For"
		}
		rp.Servers[i].MTLS = false
	}
	rp.Conns, rp.Ops = nil, nil
	rp.Tokens = map[string]*plan.TokenSpec{}
	heavy4 := []string{"192.0.2.7", "192.0.2.9", "198.51.100.9"}
	heavy6 := []string{"2001:db8:a::5", "2001:db8:a:1::6"}
	light4 := []string{"203.0.113.77", "100.64.1.1", "172.16.5.5"}
	light6 := []string{"2001:db8:ffff::1", "2001:db8:b:12::9"}
	// stream listeners: half of the time a client keeps using its connection
	// (many queries behind one accept), otherwise one connection per query
	lastConn := map[string]int{}
	lastAt := map[string]int64{}
	// an upstream outage: most exchanges fail (the server takes the query and
	// drops the connection); a query answered SERVFAIL has been admitted and
	// paid for all the same
	outage := r.p(0.2)
	add := func(src string, at int64, si int) {
		srv := rp.Servers[si]
		ci := len(rp.Conns)
		key := fmt.Sprintf("%s/%d", src, si)
		stream := srv.Proto == "tcp" || srv.Proto == "tls" || srv.Proto == "gnet" || srv.Proto == "quic"
		if prev, ok := lastConn[key]; ok && stream && r.p(0.7) && at-lastAt[key] < 4_000_000 && at >= lastAt[key] {
			ci = prev
			lastAt[key] = at
		} else {
			lastAt[key] = at
			rp.Conns = append(rp.Conns, plan.ClientConn{Idx: ci, Server: si, Src: src, LingerUs: 8_000_000, HTTP2: srv.Proto == "https" && r.p(0.5)})
			if srv.ClientAddrHeader != "" {
				// every client of this listener comes through the same reverse proxy
				c := &rp.Conns[len(rp.Conns)-1]
				c.XFF = src
				if strings.Contains(src, ":") {
					c.Src = "2001:db8:9::1"
				} else {
					c.Src = "10.77.0.1"
				}
			}
			if srv.MultiRoutes && strings.Contains(src, ".") && r.p(0.5) {
				// a second local address of the socket: the answer - a refusal
				// too - has to come back from there
				rp.Conns[len(rp.Conns)-1].AltDst = true
			}
			if stream && r.p(0.5) {
				lastConn[key] = ci
			}
		}
		idx := len(rp.Ops)
		tok := fmt.Sprintf("t%d", idx)
		op := plan.ClientOp{Idx: idx, Conn: ci, AtUs: at, ID: uint16(0x2000 + idx*13), Token: tok, NQ: 1, Class: 1, Type: 1, Bits: refdns.BitRD, Labels: append([][]byte{[]byte(tok)}, labelsOf("example.com")...)}
		if srv.Proto == "http" || srv.Proto == "fasthttp" || srv.Proto == "https" {
			op.Method = []string{"GET", "POST"}[r.intn(2)]
		}
		rp.Ops = append(rp.Ops, op)
		rp.Tokens[tok] = &plan.TokenSpec{Ans: plan.AnswerSpec{NAn: 1, TTLs: []uint32{60}, Shape: "plain"}, Acts: []plan.UpAction{{Kind: "reply", DelayUs: r.i64(100, 5000)}}}
		if outage && r.p(0.85) {
			rp.Tokens[tok].Acts = []plan.UpAction{{Kind: []string{"fin", "rst"}[r.intn(2)], DelayUs: r.i64(100, 3000)}}
		}
	}
	pickSrc := func(si int, v4, v6 []string) string {
		l := rp.Servers[si].Listen
		switch {
		case strings.HasPrefix(l, "127.") || strings.HasPrefix(l, "0.0.0.0"):
			return r.pick(v4)
		case strings.HasPrefix(l, "[::1]"):
			return r.pick(v6)
		}
		if r.p(0.5) {
			return r.pick(v4)
		}
		return r.pick(v6)
	}
	// heavy traffic in bursts
	t := int64(20_000)
	for n := r.rng(40, 300); n > 0; n-- {
		if r.p(0.1) {
			t += r.i64(500_000, 5_000_000)
		} else {
			t += r.i64(0, 20_000)
		}
		si := r.intn(len(rp.Servers))
		add(pickSrc(si, heavy4, heavy6), t, si)
	}
	// a pipelining client: many queries written at once on one new stream
	// connection (one segment, one read event at the listener); every one of
	// them has to be charged
	for si, srv := range rp.Servers {
		if !(srv.Proto == "tcp" || srv.Proto == "tls" || srv.Proto == "gnet") || !r.p(0.6) {
			continue
		}
		src := pickSrc(si, heavy4, heavy6)
		at := r.i64(20_000, t)
		key := fmt.Sprintf("%s/%d", src, si)
		first := len(rp.Conns)
		rp.Conns = append(rp.Conns, plan.ClientConn{Idx: first, Server: si, Src: src, LingerUs: 8_000_000, Coalesce: true})
		for k := r.rng(6, 40); k > 0; k-- {
			// add() opens another connection now and then: keep filling the first
			lastConn[key], lastAt[key] = first, at
			add(src, at, si)
		}
		delete(lastConn, key)
	}
	// first contact of a subnet nobody has seen yet (or not for minutes): its
	// first queries arrive in the same instant over separate transports, so
	// the evaluations that create its bucket overlap
	for n := r.intn(3); n > 0; n-- {
		fresh4 := fmt.Sprintf("198.18.%d.", 10+n)
		fresh6 := fmt.Sprintf("2001:db8:%x:", 0xc0+n)
		at := r.i64(20_000, t)
		for k := r.rng(4, 12); k > 0; k-- {
			si := r.intn(len(rp.Servers))
			src := pickSrc(si, []string{fresh4 + strconv.Itoa(1+r.intn(200))}, []string{fresh6 + fmt.Sprintf(":%x", 1+r.intn(200))})
			delete(lastConn, fmt.Sprintf("%s/%d", src, si))
			add(src, at+r.i64(0, 30), si)
			delete(lastConn, fmt.Sprintf("%s/%d", src, si))
		}
	}
	if r.p(0.6) && p.Knobs.YieldDensity == 0 {
		p.Knobs.YieldDensity = []float64{0.1, 0.3, 0.6}[r.intn(3)]
	}
	// twin subnets and a global limit: others exhaust the shared budget, the
	// first twin asks meanwhile (and is refused for that reason alone); after a
	// quiet second both twins ask the same listener the same questions at the
	// same time - what the first one was refused before was never admitted, so
	// it has cost it nothing and the two must fare alike
	if us := udpServerOf(rp); us >= 0 && r.p(0.3) {
		rp.Limiter.Global = []int{100, 200}[r.intn(2)]
		rp.Limiter.Limit, rp.Limiter.Burst = r.rng(1, 2), []int{6, 10, 16}[r.intn(3)]
		rp.Limiter.V4Mask, rp.Limiter.V6Mask = 0, 0
		t0 := t + 3_000_000 // after everything else, the global bucket full again
		// (many subnets, each within its own burst: whichever limiter is asked
		// first, the shared budget is what runs out)
		var hv []string
		for k := 0; k < rp.Limiter.Global*3/rp.Limiter.Burst+1; k++ {
			hv = append(hv, fmt.Sprintf("198.19.%d.1", 100+k))
		}
		for k := 0; k < rp.Limiter.Global*3; k++ {
			add(hv[k%len(hv)], t0+int64(k)*r.i64(5, 20), us)
		}
		// (the twins' questions are answered by a reject rule: what a query
		// costs then does not depend on how long an upstream takes)
		rp.DomainSets = []plan.DomainSetSpec{{Tag: "twinset", Files: [][]string{{"domain:twin.test"}}}}
		rp.Rules = append([]plan.RuleSpec{{Domain: "twinset", Reject: 3}}, rp.Rules...)
		twin := func(src string, at int64) {
			add(src, at, us)
			op := &rp.Ops[len(rp.Ops)-1]
			op.Labels = append([][]byte{[]byte(op.Token)}, labelsOf("twin.test")...)
		}
		// while the others are still at it: the shared budget is empty then
		t1 := t0 + int64(rp.Limiter.Global)*20
		for k := 0; k < rp.Limiter.Burst+r.rng(0, 4); k++ {
			twin("198.19.77.7", t1+int64(k)*r.i64(20, 120))
		}
		t3 := t0 + int64(rp.Limiter.Global*3)*20 + 1_300_000
		nq := r.rng(3, rp.Limiter.Burst)
		for k := 0; k < nq; k++ {
			at := t3 + int64(k)*r.i64(100, 400)
			twin("198.19.77.7", at)
			twin("198.19.88.8", at+1)
		}
		rp.Limiter.Twins = []plan.TwinSpec{{V1: "198.19.77.7", V2: "198.19.88.8", Phase3Us: t3}}
		t = t3 + 1_000_000
	}
	// victims: a handful of queries, far inside their own budget
	for n := r.rng(2, 6); n > 0; n-- {
		si := r.intn(len(rp.Servers))
		add(pickSrc(si, light4, light6), r.i64(20_000, t), si)
	}
	rp.HorizonUs = t + 8_000_000 + 12_000_000
}

// udpServerOf: a udp listener that IPv4 clients can reach (-1 if none).
func udpServerOf(rp *plan.RouterPlan) int {
	for i, s := range rp.Servers {
		if s.Proto == "udp" && !strings.HasPrefix(s.Listen, "[::1]") && !s.MultiRoutes {
			return i
		}
	}
	return -1
}

// genLateDial: Close around the completion of a dial that ignores its context.
func genLateDial(r *rng, seed uint64) *plan.Plan {
	p := &plan.Plan{Version: 1, Seed: seed, Family: "latedial", Focus: "C18", Arm: "latedial"}
	ld := &plan.LateDialPlan{Kind: []string{"reuse", "pipeline", "quic"}[r.intn(3)]}
	d := r.i64(200, []int64{2_000, 50_000, 800_000}[r.intn(3)])
	ld.DialDelayUs = []int64{d}
	if r.p(0.3) {
		ld.DialDelayUs = append(ld.DialDelayUs, r.i64(200, 300_000))
	}
	ld.DialTimeoutUs = []int64{0, 100_000, 5_000_000}[r.intn(3)]
	for n := r.rng(1, 4); n > 0; n-- {
		ld.CallAtUs = append(ld.CallAtUs, r.i64(0, d+d/2+1000))
	}
	ld.CallLimitUs = []int64{300_000, 3_000_000, 8_000_000}[r.intn(3)]
	// Close lands before, right at, or shortly after the first dial's completion
	first := ld.CallAtUs[0]
	for _, a := range ld.CallAtUs {
		first = min(first, a)
	}
	switch r.intn(4) {
	case 0:
		ld.CloseAtUs = first + r.i64(1, d)
	case 1:
		ld.CloseAtUs = first + d + r.i64(-50, 50)
	case 2:
		ld.CloseAtUs = first + d + r.i64(0, 5_000)
	default:
		ld.CloseAtUs = r.i64(0, 2*d+2000)
	}
	if ld.CloseAtUs < 1 {
		ld.CloseAtUs = 1
	}
	ld.SecondClose = r.p(0.3)
	if r.p(0.25) {
		// a dial that stalls for seconds (handshake never answered) under a
		// dialer that watches its context: Close has to reach it, and the
		// exchanges waiting for it return at once
		ld.HonourCtx = true
		d = r.i64(2_500_000, 4_500_000)
		ld.DialDelayUs = []int64{d}
		ld.DialTimeoutUs = []int64{0, 5_000_000}[r.intn(2)]
		ld.CallAtUs = ld.CallAtUs[:1]
		ld.CallAtUs[0] = r.i64(0, 100_000)
		ld.CallLimitUs = 8_000_000
		ld.CloseAtUs = ld.CallAtUs[0] + r.i64(1_000, 1_000_000)
	}
	p.LateDial = ld
	k := plan.Knobs{GetFill: r.intn(3)}
	if r.p(0.7) {
		k.YieldDensity = []float64{0.05, 0.2, 0.5}[r.intn(3)]
		k.StallProb = []float64{0, 0.02}[r.intn(2)]
		k.StallMaxUs = 2000
	}
	p.Knobs = k
	return p
}

// genCodec: a history of answers of every shape for the codec arm of C02.
func genCodec(r *rng, seed uint64) *plan.Plan {
	p := &plan.Plan{Version: 1, Seed: seed, Family: "codec", Focus: "C02", Arm: "codec"}
	pr := ProfileFor("C02", "clean")
	pr.Shapes = append(pr.Shapes, "tight", "tight", "plain")
	pr.OptInReply = 0.5
	pr.BigAnswers = 0.15
	cp := &plan.CodecPlan{Alive: []int{0, 1, 3, 8}[r.intn(4)]}
	n := r.rng(20, 120)
	for i := 0; i < n; i++ {
		typ := []uint16{1, 28, 5, 15, 16, 33, 2, 12, 6, 255, 65, 250, 99}[r.intn(13)]
		ts := genToken(r, &pr, typ)
		tok := fmt.Sprintf("t%d", i)
		ls := [][]byte{[]byte(tok)}
		ls = append(ls, labelsOf(r.pick(zones))...)
		for j := range ls {
			ls[j] = mixCase(r, ls[j])
		}
		it := plan.CodecItem{Idx: i, Token: tok, Labels: ls, Type: typ, Class: []uint16{1, 1, 1, 3, 255}[r.intn(5)], Ans: ts.Ans}
		if r.p(0.15) {
			it.CutAt = 1 + r.intn(100000)
		}
		cp.Items = append(cp.Items, it)
	}
	p.Codec = cp
	p.Knobs = plan.Knobs{GetFill: r.intn(3)}
	return p
}
