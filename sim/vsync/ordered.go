package vsync

import (
	"reflect"
	"sort"
	"unsafe"
)

// OrderKey, when set by the harness, maps a map key that is (or wraps) a
// connection to a stable number (the simulated socket's id).
var OrderKey func(conn any) (uint64, bool)

// Ordered returns the keys of m in an order that does not depend on Go's map
// iteration randomisation: strings lexically; connection-like keys (a pointer
// to a struct with a field "c" holding a net.Conn or similar) by the id of the
// simulated socket underneath; anything else by address.  simgen rewrites the
// `range` statements that choose or close connections to iterate over this.
func Ordered[K comparable, V any](m map[K]V) []K {
	type ent struct {
		k   K
		ord uint64
		str string
	}
	es := make([]ent, 0, len(m))
	for k := range m {
		e := ent{k: k}
		v := reflect.ValueOf(k)
		switch v.Kind() {
		case reflect.String:
			e.str = v.String()
		case reflect.Pointer, reflect.Interface:
			e.ord = connOrder(v)
		}
		es = append(es, e)
	}
	sort.Slice(es, func(i, j int) bool {
		if es[i].str != es[j].str {
			return es[i].str < es[j].str
		}
		return es[i].ord < es[j].ord
	})
	out := make([]K, len(es))
	for i, e := range es {
		out[i] = e.k
	}
	return out
}

func connOrder(v reflect.Value) uint64 {
	for v.Kind() == reflect.Interface && !v.IsNil() {
		v = v.Elem()
	}
	if v.Kind() != reflect.Pointer || v.IsNil() {
		return 0
	}
	addr := uint64(v.Pointer())
	s := v.Elem()
	if s.Kind() == reflect.Struct && OrderKey != nil {
		for _, name := range []string{"c", "conn", "Conn"} {
			f := s.FieldByName(name)
			if !f.IsValid() || !f.CanAddr() {
				continue
			}
			fv := reflect.NewAt(f.Type(), unsafe.Pointer(f.UnsafeAddr())).Elem()
			if fv.Kind() == reflect.Interface && !fv.IsNil() {
				if id, ok := OrderKey(fv.Interface()); ok {
					return id
				}
			}
		}
	}
	return 1<<40 + addr
}
