//go:build race

package vsync

import "sync"

// Under the race detector the real pool is used: its acquire/release
// annotations are exactly the happens-before edges the shipped code gets,
// and a lock of our own would add more and hide races.
type Pool = sync.Pool

var (
	PoolPoison     bool
	PoolQuarantine int
	PoolReport     func(kind, detail string)
)

func PoolStats() (puts, gets, poisoned int64) { return 0, 0, 0 }
func PoolReset()                              {}
