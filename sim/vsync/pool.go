//go:build !race

package vsync

import (
	"fmt"
	"reflect"
	"sort"
	"strings"
	"sync"
	"unsafe"
)

// Pool replaces sync.Pool in the rewritten packages.  It is a LIFO free list
// (deterministic: no per-P caches, no GC clearing).  With PoolPoison on, an
// object of a repository type that is Put is (1) checked for a second Put
// while it is still free, (2) overwritten with recognisable poison values -
// after the owner has reset it - so that any later read through a stale
// pointer produces data the oracles recognise on the wire, (3) kept out of
// circulation for PoolQuarantine further Puts, and (4) on the way out of Get
// compared with the poison image (a difference is a write after release) and
// restored to the state in which it was Put.
type Pool struct {
	New func() any

	mu   sync.Mutex // real; held for instants only
	free []any
	quar []any
}

var (
	// PoolPoison turns poisoning, quarantine and the checks on.
	PoolPoison bool
	// PoolQuarantine is the number of released objects per pool held back.
	PoolQuarantine int
	// PoolReport receives "double-release" and "write-after-release".
	PoolReport func(kind, detail string)
)

const repoPath = "github.com/IrineSistiana/mosproxy/"

type objState struct {
	released bool
	clean    reflect.Value // value at Put, before poisoning
	img      reflect.Value // value after poisoning
}

var (
	stMu     sync.Mutex
	states   = map[unsafe.Pointer]*objState{}
	pooled   = map[reflect.Type]bool{} // pointer types seen in Put
	nPut     int64
	nGet     int64
	nPoison  int64
	poisonNm = []byte("\x06poison\x05after\x07release") // no terminator: the internal form of dnsmsg.Name
)

// PoisonName is the wire form of the name put into released objects.
func PoisonName() []byte { return poisonNm }

func PoolStats() (puts, gets, poisoned int64) {
	stMu.Lock()
	defer stMu.Unlock()
	return nPut, nGet, nPoison
}

// PoolReset forgets all tracking state (between runs in one process).
func PoolReset() {
	stMu.Lock()
	states = map[unsafe.Pointer]*objState{}
	nPut, nGet, nPoison = 0, 0, 0
	stMu.Unlock()
}

func ours(t reflect.Type) bool {
	pp := t.PkgPath()
	return strings.HasPrefix(pp, repoPath) && !strings.HasPrefix(pp, repoPath+"verifsim")
}

func (p *Pool) Get() any {
	p.mu.Lock()
	var x any
	if n := len(p.free); n > 0 {
		x = p.free[n-1]
		p.free[n-1] = nil
		p.free = p.free[:n-1]
	}
	p.mu.Unlock()
	if x == nil {
		if p.New == nil {
			return nil
		}
		return p.New()
	}
	v := reflect.ValueOf(x)
	if v.Kind() == reflect.Pointer {
		ptr := v.UnsafePointer()
		stMu.Lock()
		nGet++
		st := states[ptr]
		var changed bool
		if st != nil && st.released {
			changed = !reflect.DeepEqual(v.Elem().Interface(), st.img.Interface())
			v.Elem().Set(st.clean)
			st.released = false
			st.clean, st.img = reflect.Value{}, reflect.Value{}
		}
		stMu.Unlock()
		if changed && PoolReport != nil {
			PoolReport("write-after-release", fmt.Sprintf("a pooled %s was modified while it was in the free list", v.Type()))
		}
	}
	return x
}

func (p *Pool) Put(x any) {
	if x == nil {
		return
	}
	v := reflect.ValueOf(x)
	if !PoolPoison || v.Kind() != reflect.Pointer || v.IsNil() || v.Elem().Kind() != reflect.Struct || !ours(v.Elem().Type()) {
		p.mu.Lock()
		p.free = append(p.free, x)
		p.mu.Unlock()
		return
	}
	ptr := v.UnsafePointer()
	stMu.Lock()
	nPut++
	pooled[v.Type()] = true
	if st := states[ptr]; st != nil && st.released {
		stMu.Unlock()
		if PoolReport != nil {
			PoolReport("double-release", fmt.Sprintf("a pooled %s was put back twice without having been taken out in between", v.Type()))
		}
		return
	}
	t := v.Elem().Type()
	clean := reflect.New(t).Elem()
	clean.Set(v.Elem())
	poisonStruct(v.Elem(), 0)
	img := reflect.New(t).Elem()
	img.Set(v.Elem())
	states[ptr] = &objState{released: true, clean: clean, img: img}
	nPoison++
	stMu.Unlock()

	p.mu.Lock()
	p.quar = append(p.quar, x)
	for len(p.quar) > PoolQuarantine {
		p.free = append(p.free, p.quar[0])
		p.quar[0] = nil
		p.quar = p.quar[1:]
	}
	p.mu.Unlock()
}

func settable(f reflect.Value) reflect.Value {
	if f.CanSet() {
		return f
	}
	return reflect.NewAt(f.Type(), unsafe.Pointer(f.UnsafeAddr())).Elem()
}

// poisonStruct overwrites the fields of v (an addressable struct of a
// repository type).  Caller holds stMu.
func poisonStruct(v reflect.Value, depth int) {
	for i := 0; i < v.NumField(); i++ {
		f := settable(v.Field(i))
		switch f.Kind() {
		case reflect.Uint8, reflect.Uint16, reflect.Uint32, reflect.Uint64, reflect.Uint:
			f.SetUint(0xDEDEDEDEDEDEDEDE >> (64 - f.Type().Bits()))
		case reflect.Int8, reflect.Int16, reflect.Int32, reflect.Int64, reflect.Int:
			f.SetInt(0x5E5E5E5E5E5E5E5E >> (64 - f.Type().Bits()))
		case reflect.String:
			f.SetString("poison-after-release")
		case reflect.Array:
			if f.Type().Elem().Kind() == reflect.Uint8 {
				for k := 0; k < f.Len(); k++ {
					f.Index(k).SetUint(0xDE)
				}
			}
		case reflect.Struct:
			if ours(f.Type()) {
				poisonStruct(f, depth)
			}
		case reflect.Pointer:
			if depth < 2 && f.Type().Elem().Kind() == reflect.Struct && ours(f.Type().Elem()) {
				n := reflect.New(f.Type().Elem())
				poisonStruct(n.Elem(), depth+1)
				f.Set(n)
			}
		case reflect.Slice:
			et := f.Type().Elem()
			switch {
			case et.Kind() == reflect.Uint8:
				b := make([]byte, len(poisonNm), 32)
				copy(b, poisonNm)
				f.Set(reflect.ValueOf(b).Convert(f.Type()))
			case depth < 2 && et.Kind() == reflect.Pointer && et.Elem().Kind() == reflect.Struct && ours(et.Elem()):
				n := reflect.New(et.Elem())
				poisonStruct(n.Elem(), depth+1)
				s := reflect.MakeSlice(f.Type(), 1, 1)
				s.Index(0).Set(n)
				f.Set(s)
			case depth < 2 && et.Kind() == reflect.Interface:
				if it := implementer(et); it != nil {
					n := reflect.New(it.Elem())
					poisonStruct(n.Elem(), depth+1)
					s := reflect.MakeSlice(f.Type(), 1, 1)
					s.Index(0).Set(n)
					f.Set(s)
				}
			}
		}
	}
}

// implementer picks, deterministically, a pooled pointer type implementing
// the interface type it.
func implementer(it reflect.Type) reflect.Type {
	var c []reflect.Type
	for t := range pooled {
		if t.Implements(it) {
			c = append(c, t)
		}
	}
	if len(c) == 0 {
		return nil
	}
	sort.Slice(c, func(i, j int) bool { return c[i].String() < c[j].String() })
	return c[0]
}
