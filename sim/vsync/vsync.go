// Package vsync replaces package "sync" in the transport, router and connpool
// files.  Mutex, RWMutex and Once are rebuilt over channels so that (a) a
// goroutine blocked on them is *durably* blocked for testing/synctest and
// (b) every Lock is a yield point at which the simulator may park the caller
// for a seeded amount of fake time, letting other goroutines, timers and
// network events overtake it.  Pool is a deterministic free list that can
// poison released objects (pool.go).  Everything else is the real package.
package vsync

import (
	"runtime"
	"sync"
	"sync/atomic"
)

type (
	WaitGroup = sync.WaitGroup
	Map       = sync.Map
	Locker    = sync.Locker
)

// Hook, when set, is called before every Lock/RLock/Do with the caller's PC.
// It may sleep (fake time).  It must not take vsync locks.
var Hook func(pc uintptr)

// Pick chooses which of n waiters gets the lock on Unlock (nil = FIFO).
var Pick func(n int) int

func yield() {
	if h := Hook; h != nil {
		var pcs [1]uintptr
		if runtime.Callers(3, pcs[:]) == 1 {
			h(pcs[0])
		}
	}
}

// Y is a cooperative scheduling point inserted by the build overlay into
// code that takes no locks (simgen rule "yields").
func Y() {
	if h := HookY; h != nil {
		var pcs [1]uintptr
		if runtime.Callers(2, pcs[:]) == 1 {
			h(pcs[0])
		}
	}
}

// yieldAfter is the scheduling point right after a lock was released (a
// goroutine pre-empted between leaving a critical section and its next
// statement): a light one, like the inserted points.
func yieldAfter() {
	if h := HookU; h != nil {
		var pcs [1]uintptr
		if runtime.Callers(3, pcs[:]) == 1 {
			h(pcs[0])
		}
	}
}

// HookU, when set, is called right after an RWMutex was released.
var HookU func(pc uintptr)

// HookY, when set, is called at every inserted scheduling point with the
// caller's PC.  It may sleep (fake time).
var HookY func(pc uintptr)

func pick(n int) int {
	if p := Pick; p != nil && n > 1 {
		i := p(n)
		if i >= 0 && i < n {
			return i
		}
	}
	return 0
}

type Mutex struct {
	g       sync.Mutex // guards the fields; held for instants only
	locked  bool
	waiters []chan struct{}
}

func (m *Mutex) Lock() {
	yield()
	m.g.Lock()
	if !m.locked {
		m.locked = true
		m.g.Unlock()
		return
	}
	ch := make(chan struct{})
	m.waiters = append(m.waiters, ch)
	m.g.Unlock()
	<-ch // ownership is handed over by Unlock
}

func (m *Mutex) TryLock() bool {
	m.g.Lock()
	defer m.g.Unlock()
	if m.locked {
		return false
	}
	m.locked = true
	return true
}

func (m *Mutex) Unlock() {
	m.g.Lock()
	if !m.locked {
		m.g.Unlock()
		panic("vsync: unlock of unlocked mutex")
	}
	if n := len(m.waiters); n > 0 {
		i := pick(n)
		ch := m.waiters[i]
		m.waiters = append(m.waiters[:i], m.waiters[i+1:]...)
		m.g.Unlock()
		close(ch)
		return
	}
	m.locked = false
	m.g.Unlock()
}

type rwWaiter struct {
	ch    chan struct{}
	write bool
}

type RWMutex struct {
	g       sync.Mutex
	writer  bool
	readers int
	q       []rwWaiter
}

func (m *RWMutex) Lock() {
	yield()
	m.g.Lock()
	if !m.writer && m.readers == 0 && len(m.q) == 0 {
		m.writer = true
		m.g.Unlock()
		return
	}
	ch := make(chan struct{})
	m.q = append(m.q, rwWaiter{ch, true})
	m.g.Unlock()
	<-ch
}

func (m *RWMutex) RLock() {
	yield()
	m.g.Lock()
	if !m.writer && len(m.q) == 0 {
		m.readers++
		m.g.Unlock()
		return
	}
	ch := make(chan struct{})
	m.q = append(m.q, rwWaiter{ch, false})
	m.g.Unlock()
	<-ch
}

// grantLocked hands the lock to the next waiter(s); m.g is held.
func (m *RWMutex) grantLocked() {
	for len(m.q) > 0 && !m.writer {
		w := m.q[0]
		if w.write {
			if m.readers > 0 {
				return
			}
			m.q = m.q[1:]
			m.writer = true
			close(w.ch)
			return
		}
		m.q = m.q[1:]
		m.readers++
		close(w.ch)
	}
}

func (m *RWMutex) Unlock() {
	m.g.Lock()
	if !m.writer {
		m.g.Unlock()
		panic("vsync: Unlock of unlocked RWMutex")
	}
	m.writer = false
	m.grantLocked()
	m.g.Unlock()
	yieldAfter()
}

func (m *RWMutex) RUnlock() {
	m.g.Lock()
	if m.readers <= 0 {
		m.g.Unlock()
		panic("vsync: RUnlock of unlocked RWMutex")
	}
	m.readers--
	if m.readers == 0 {
		m.grantLocked()
	}
	m.g.Unlock()
	yieldAfter()
}

func (m *RWMutex) TryLock() bool {
	m.g.Lock()
	defer m.g.Unlock()
	if m.writer || m.readers > 0 {
		return false
	}
	m.writer = true
	return true
}

func (m *RWMutex) TryRLock() bool {
	m.g.Lock()
	defer m.g.Unlock()
	if m.writer || len(m.q) > 0 {
		return false
	}
	m.readers++
	return true
}

func (m *RWMutex) RLocker() sync.Locker { return (*rlocker)(m) }

type rlocker RWMutex

func (r *rlocker) Lock()   { (*RWMutex)(r).RLock() }
func (r *rlocker) Unlock() { (*RWMutex)(r).RUnlock() }

type Once struct {
	m    Mutex
	done atomic.Bool
}

func (o *Once) Do(f func()) {
	if o.done.Load() {
		return
	}
	o.m.Lock()
	defer o.m.Unlock()
	if !o.done.Load() {
		defer o.done.Store(true)
		f()
	}
}

func OnceFunc(f func()) func()             { return sync.OnceFunc(f) }
func OnceValue[T any](f func() T) func() T { return sync.OnceValue(f) }
func NewCond(l sync.Locker) *sync.Cond     { return sync.NewCond(l) }
