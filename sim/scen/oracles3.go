package scen

import (
	"encoding/hex"
	"fmt"
	"net/netip"
	"sort"
	"strings"
	"time"

	"github.com/IrineSistiana/mosproxy/verifsim/peers"
	"github.com/IrineSistiana/mosproxy/verifsim/plan"
	"github.com/IrineSistiana/mosproxy/verifsim/refdns"
	"github.com/IrineSistiana/mosproxy/verifsim/vnet"
)

// refGroup is the linear-scan reference of the client-group lookup (C07).
func refGroup(rp *plan.RouterPlan, a netip.Addr) string {
	if !a.IsValid() {
		return ""
	}
	a = a.Unmap()
	for _, r := range rp.Cache.IpMarker {
		s, e1 := netip.ParseAddr(r.Start)
		e, e2 := netip.ParseAddr(r.End)
		if e1 != nil || e2 != nil {
			continue
		}
		s, e = s.Unmap(), e.Unmap()
		if s.Is4() != a.Is4() {
			continue
		}
		if s.Compare(a) <= 0 && a.Compare(e) <= 0 {
			return r.Label
		}
	}
	return ""
}

// serialRec is one generation of an answer by a fake upstream.
type serialRec struct {
	up, token, key string
	serial         int
	reply          peers.UpReply
	orig           *refdns.Msg
	rcode          int
	tc             bool
	lifetime       time.Duration
	positive       bool
	group          string // group the fetch was made for; "?" when unknown
	groupKnown     bool
	groups         map[string]bool // candidate groups before re-sends are considered
}

func maxTTL(rp *plan.RouterPlan) time.Duration {
	if rp.Cache.MaxTTL > 0 {
		return time.Duration(rp.Cache.MaxTTL) * time.Second
	}
	return 6 * time.Hour
}

// lifetimeOf is the policy in the statement of C08.
func lifetimeOf(rp *plan.RouterPlan, m *refdns.Msg) time.Duration {
	min := uint32(0xffffffff)
	has := false
	for _, sec := range [][]refdns.RR{m.An, m.Ns, m.Ar} {
		for _, r := range sec {
			if r.Type == refdns.TypeOPT {
				continue
			}
			has = true
			if r.TTL < min {
				min = r.TTL
			}
		}
	}
	d := time.Duration(min) * time.Second
	var lt time.Duration
	switch m.Rcode() {
	case 0:
		if has {
			lt = d
		} else {
			lt = 30 * time.Second
		}
	case 3:
		lt = 30 * time.Second
		if has && d < lt {
			lt = d
		}
	case 2:
		lt = time.Second
		if has && d < lt {
			lt = d
		}
	default:
		lt = 5 * time.Second
		if has && d < lt {
			lt = d
		}
	}
	if mx := maxTTL(rp); lt > mx {
		lt = mx
	}
	return lt
}

func nameFromKey(key string) refdns.Name {
	p := strings.SplitN(key, "/", 2)
	b, _ := hex.DecodeString(p[0])
	return refdns.Name(b)
}

func buildSerials(h *History, vs []*opView) map[string][]*serialRec {
	out := map[string][]*serialRec{}
	for _, tag := range h.UpOrder {
		u := h.Ups[tag]
		seen := map[string]bool{}
		for _, r := range u.Replies {
			if r.Serial == 0 || !(r.Kind == "reply" || r.Kind == "tc") {
				continue
			}
			id := fmt.Sprintf("%s|%d", r.Key, r.Serial)
			if seen[id] {
				continue
			}
			seen[id] = true
			var class, typ uint16
			fmt.Sscanf(r.Key[strings.IndexByte(r.Key, '/')+1:], "%d/%d", &class, &typ)
			spec := &u.DefaultAns
			if t := h.RP.Tokens[r.Token]; t != nil {
				spec = t.SpecFor(r.Arrival)
			}
			orig := peers.Generate(h.P.Seed, tag, r.Token, nameFromKey(r.Key), class, typ, spec, r.Serial, r.ECS, int64(r.At))
			sr := &serialRec{up: tag, token: r.Token, key: r.Key, serial: r.Serial, reply: r, orig: orig, rcode: orig.Rcode(), tc: orig.Has(refdns.BitTC) || r.Kind == "tc"}
			sr.lifetime = lifetimeOf(h.RP, orig)
			sr.positive = sr.rcode == 0
			// attribute the fetch to a client group: the ops with this key that
			// were waiting when the query reached the upstream, or (prefetch)
			// were answered just before.
			groups := map[string]bool{}
			for _, v := range vs {
				if v.q == nil || v.o.Op.Raw != nil || len(v.q.Q) != 1 || v.o.Op.Token != r.Token {
					continue
				}
				if peers.KeyOf(v.lower, v.q.Q[0].Class, v.q.Q[0].Type) != r.Key {
					continue
				}
				if v.o.SentAt > r.QueryAt {
					continue
				}
				answered := time.Duration(1 << 62)
				if len(v.o.Resps) > 0 {
					answered = v.o.Resps[0].At
				}
				if answered >= r.QueryAt-100*time.Millisecond {
					groups[refGroup(h.RP, v.srcSeen)] = true
				}
			}
			sr.groups = groups
			k := tag + "|" + r.Key
			out[k] = append(out[k], sr)
		}
	}
	for _, l := range out {
		sort.SliceStable(l, func(i, j int) bool { return l[i].reply.At < l[j].reply.At })
		// A query that arrives while an earlier one for the same key is still
		// unanswered at this server may be the transport re-sending that
		// exchange on another connection (the proxy gave the first one up):
		// it then belongs to whoever caused the earlier one.
		for _, a := range l {
			cand := map[string]bool{}
			for g := range a.groups {
				cand[g] = true
			}
			for _, b := range l {
				if b != a && b.reply.QueryAt < a.reply.QueryAt && a.reply.QueryAt < b.reply.At {
					for g := range b.groups {
						cand[g] = true
					}
				}
			}
			if len(cand) == 1 {
				for g := range cand {
					a.group, a.groupKnown = g, true
				}
			} else {
				a.group = "?"
			}
		}
	}
	return out
}

func stallSlack(p *plan.Plan) time.Duration {
	if p.Knobs.YieldDensity > 0 && p.Knobs.StallProb > 0 {
		return 500 * time.Millisecond
	}
	return 50 * time.Millisecond
}

// checkCache holds the oracles of C07, C08 and C19.
func checkCache(h *History, vs []*opView) {
	rp := h.RP
	if rp.Cache.MemSize == 0 && rp.Cache.Redis == nil || rp.CloseAtUs > 0 {
		return
	}
	serials := buildSerials(h, vs)
	clMax, clMin := us(rp.Net.ClientLatUs[1]), us(rp.Net.ClientLatUs[0])
	upMax, upMin := us(rp.Net.UpLatUs[1])+time.Millisecond, us(rp.Net.UpLatUs[0])
	sigma := stallSlack(h.P)
	ample := rp.Cache.MemSize >= 1<<20
	if rs := rp.Cache.Redis; rs != nil && (len(rs.DownUs) > 0 || len(rs.FlushUs) > 0) {
		// an unreachable second level delays lookups by its time-out, and a
		// flushed one forgets; the "must be a hit" clauses do not apply then
		ample = ample && false
	}
	// a fault-free second level keeps what it was given until it expires,
	// whatever the size of the memory cache in front of it; a value is there
	// once the asynchronous store queue (128 slots, one command at a time) has
	// reached it
	redisDurable := time.Duration(-1)
	if rs := rp.Cache.Redis; rs != nil && len(rs.DownUs) == 0 && len(rs.FlushUs) == 0 {
		redisDurable = time.Second + 130*us(rs.LatUs[1])
	}
	redisRTT := time.Duration(0)
	if rs := rp.Cache.Redis; rs != nil {
		redisRTT = us(rs.LatUs[1])
	}
	faultFree := rp.Net.UpDrop == 0 && rp.Net.UpDup == 0 && rp.Net.UpCorrupt == 0 && len(rp.Net.Partitions) == 0 && len(rp.Net.Connect) == 0

	type firstRelay struct {
		m    *refdns.Msg
		at   time.Duration
		size int // bytes on the wire
	}
	first := map[string]*firstRelay{}

	type deliv struct {
		v   *opView
		m   *refdns.Msg
		raw []byte
		at  time.Duration
	}
	var ds []deliv
	for _, v := range vs {
		if v.q == nil || v.o.Op.Raw != nil || !v.supported || v.outcome.Kind != "forward" || v.o.Op.HTTPVariant != "" {
			continue
		}
		for i, r := range v.o.Resps {
			if v.isHTTP && r.Status != 200 || v.resps[i] == nil {
				continue
			}
			ds = append(ds, deliv{v, v.resps[i], r.B, r.At})
			break
		}
	}
	sort.SliceStable(ds, func(i, j int) bool { return ds[i].at < ds[j].at })
	// evidence that a serial reached the proxy: some client received it.
	deliveredAt := map[string]time.Duration{}
	sid := func(s *serialRec) string { return fmt.Sprintf("%s|%s|%d", s.up, s.key, s.serial) }
	for _, d := range ds {
		if meta, ok := peers.DecodeMeta(d.m); ok && len(d.m.Q) == 1 {
			id := fmt.Sprintf("%s|%s|%d", meta.Up, peers.KeyOf(d.m.Q[0].Name.Lower(), meta.Class, meta.Type), meta.Serial)
			if _, seen := deliveredAt[id]; !seen {
				deliveredAt[id] = d.at
			}
		}
	}
	reached := func(s *serialRec, before time.Duration) bool {
		t, ok := deliveredAt[sid(s)]
		return ok && t <= before
	}
	// arrivedBy: an upper bound on when the proxy had the whole reply.  Small
	// replies arrive one latency after they were sent; a large one may take
	// many round trips (QUIC / HTTP/2 flow control, congestion window), so for
	// those only "before some client was handed that answer" is certain.
	// (a small reply queued behind large ones on the same upstream - one QUIC
	// or HTTP/2 connection, one pipelined stream - shares their fate)
	bigAt := map[string][]time.Duration{}
	for _, l := range serials {
		for _, s := range l {
			if s.reply.Bytes > 8192 {
				bigAt[s.up] = append(bigAt[s.up], s.reply.At)
			}
		}
	}
	behindBig := func(s *serialRec) bool {
		for _, t := range bigAt[s.up] {
			if t <= s.reply.At+upMax && t >= s.reply.At-20*time.Second {
				return true
			}
		}
		return false
	}
	arrivedBy := func(s *serialRec) time.Duration {
		if s.reply.Bytes <= 8192 && !behindBig(s) {
			return s.reply.At + upMax + sigma
		}
		if t, ok := deliveredAt[sid(s)]; ok {
			return t
		}
		return 1 << 62
	}
	// surelyArrived: the reply reached the proxy although no client was ever
	// handed it: an ordinary reply of a well-behaved exchange (every exchange
	// of that question is answered properly, within 2 s, nothing is lost on
	// the way) on a connection the proxy was still reading when it came in.
	// What a successful refresh fetched is one of these even when a broken
	// cache throws it away.
	surelyArrived := func(s *serialRec) bool {
		u := h.Ups[s.up]
		if !faultFree || u == nil || s.reply.Kind != "reply" || !allActs(h.RP.Tokens[s.token], replyAct) || s.reply.At-s.reply.QueryAt > 2*time.Second {
			return false
		}
		if kind := u.Spec.Kind; kind == "https" || kind == "http" || kind == "h3" || kind == "quic" {
			return false // no per-exchange connection identity at these fake servers
		}
		late := s.reply.At + upMax + sigma
		if g, ok := u.ConnGone[s.reply.Conn]; ok && g < late {
			return false
		}
		if g, ok := u.ConnAbandoned[s.reply.Conn]; ok && g < late {
			return false
		}
		if u.Spec.Kind == "udp" {
			if vnet.W == nil {
				return false
			}
			if g, ok := vnet.W.ProxyUDPClosedAt(s.reply.Conn); ok && g < late {
				return false
			}
		}
		return true
	}
	// superseded: by the time given, a positive answer that may have been
	// stored after s - and then took its place - is not live for sure any more
	// (a refresh may come back with a much lower TTL than what was left of the
	// entry it replaces): s itself cannot be counted on then.
	superseded := func(list []*serialRec, s *serialRec, at time.Duration) bool {
		for _, r := range list {
			if r == s || !r.positive || r.tc {
				continue
			}
			if r.groupKnown && s.groupKnown && r.group != s.group {
				continue
			}
			if r.reply.At+upMax+sigma >= s.reply.At+upMin && r.reply.At+upMin <= at && at >= r.reply.At+upMin+r.lifetime-2100*time.Millisecond {
				return true
			}
		}
		return false
	}
	// redisKept: the answer is in the (fault-free, connected) second level for
	// sure by the given time
	// (only when there is no memory level in front: a small one may keep or
	// drop what it likes)
	redisKept := func(s *serialRec, by time.Duration) bool {
		// (and only positive answers: a negative one is written with NX, which
		// the remains of an older value - up to a second beyond the expiry the
		// proxy itself goes by - make fail)
		return redisDurable >= 0 && rp.Cache.MemSize == 0 && s.positive && arrivedBy(s) >= time.Second+redisRTT+100*time.Millisecond+sigma && arrivedBy(s)+redisDurable < by
	}
	// storedForSure: an answer that reached the proxy is in the cache, unless
	// it is a negative one that arrived while a positive entry of the same key
	// may have been live (an error response never displaces a live positive
	// entry, C08): then nothing can be said.
	storedForSure := func(list []*serialRec, s *serialRec) bool {
		if s.positive {
			return true
		}
		for _, p := range list {
			if p == s || !p.positive || p.tc {
				continue
			}
			if p.groupKnown && s.groupKnown && p.group != s.group {
				continue
			}
			if p.reply.At < s.reply.At+upMax+sigma && p.reply.At+upMax+sigma+p.lifetime+2*time.Second >= s.reply.At+upMin {
				return false
			}
		}
		return true
	}

	for _, d := range ds {
		v, m := d.v, d.m
		op := v.o.Op
		name := fmt.Sprintf("op %d (%s from %s, token %s)", op.Idx, v.srv.Proto, v.cc.Src, op.Token)
		meta, ok := peers.DecodeMeta(m)
		opKey := peers.KeyOf(v.lower, v.q.Q[0].Class, v.q.Q[0].Type)
		myGroup := refGroup(rp, v.srcSeen)
		list := serials[v.outcome.Forward+"|"+opKey]
		// ---- C07 (a'): a response that carries records for another question
		// although no upstream exchange for this operation's own question was
		// made while it waited can only have come out of the cache, stored
		// under this question's key.
		if len(m.Q) == 1 && len(v.q.Q) == 1 && len(m.An)+len(m.Ns) > 0 &&
			(!m.Q[0].Name.Lower().Equal(v.lower) || m.Q[0].Type != v.q.Q[0].Type || m.Q[0].Class != v.q.Q[0].Class) {
			fetched := false
			if u := h.Ups[v.outcome.Forward]; u != nil {
				for _, q := range u.Queries {
					if q.Decoded && q.At >= v.o.SentAt && q.At <= d.at && q.Name.Lower().Equal(v.lower) && q.Type == v.q.Q[0].Type && q.Class == v.q.Q[0].Class {
						fetched = true
					}
				}
			}
			if !fetched {
				h.S.Fail("C07", "hit-for-other-question", "%s asked %s type %d class %d and was served, without an upstream exchange for it, a stored response for question %s type %d class %d", name, v.q.Q[0].Name, v.q.Q[0].Type, v.q.Q[0].Class, m.Q[0].Name, m.Q[0].Type, m.Q[0].Class)
				continue
			}
		}
		if !ok {
			// No metadata: a record-less answer (NXDOMAIN / NODATA / REFUSED ...
			// without any record).  If no upstream exchange for this question ran
			// while the operation waited it came out of the cache, and its source
			// is at best the freshest record-less answer the upstream had given
			// before: when even that one's lifetime is over, the entry was kept
			// too long (C08).
			// A SERVFAIL without records for which the upstream was not asked
			// while the operation waited, although the upstream was healthy all
			// along: the only genuine source is a SERVFAIL the upstream itself
			// gave at most 1 s (+2 s granularity) before.  Without one, the
			// answer the proxy made up for an earlier failed exchange was kept
			// (failed exchanges are never cached, C08).
			if len(m.An)+len(m.Ns)+len(stripOPT(m.Ar)) == 0 && len(v.q.Q) == 1 && v.outcome.Kind == "forward" && v.supported && m.Rcode() == 2 && upstreamHealthy(h, v.outcome.Forward) {
				fetched := false
				if u := h.Ups[v.outcome.Forward]; u != nil {
					for _, q := range u.Queries {
						if q.At >= v.o.SentAt-sigma && q.At <= d.at && (!q.Decoded || q.Name.Lower().Equal(v.lower) && q.Type == v.q.Q[0].Type && q.Class == v.q.Q[0].Class) {
							fetched = true
						}
					}
				}
				genuine := false
				for _, s := range list {
					if s.rcode == 2 && s.reply.At < d.at && s.reply.At+upMax+time.Second+2*time.Second+sigma >= v.o.SentAt-clMax {
						genuine = true
					}
				}
				// an earlier operation on the same key that the proxy answered
				// SERVFAIL shortly before (what was kept)
				var earlier *opView
				for _, w := range vs {
					if w != v && w.outcome.Forward == v.outcome.Forward && len(w.q.Q) == 1 && w.lower.Equal(v.lower) && w.q.Q[0].Type == v.q.Q[0].Type && w.q.Q[0].Class == v.q.Q[0].Class && len(w.o.Resps) > 0 && w.o.Resps[0].At < v.o.SentAt {
						if wm, err := refdns.Parse(w.o.Resps[0].B); err == nil && wm.Rcode() == 2 && (earlier == nil || w.o.Resps[0].At > earlier.o.Resps[0].At) {
							earlier = w
						}
					}
				}
				// (a made-up SERVFAIL lives 1 s, +2 s granularity; an operation
				// that waited out its own deadline - a stalled second level - was
				// not served from anywhere)
				if !fetched && !genuine && earlier != nil && d.at-v.o.SentAt < requestDeadline-time.Second && v.o.SentAt-earlier.o.Resps[0].At < 4*time.Second {
					h.S.Probe("c08_servfail_unfetched_checked")
					h.S.Fail("C08", "failure-served-from-cache", "%s: answered SERVFAIL after %v without the (healthy) upstream %s being asked; op %d on the same key had been answered SERVFAIL %v before this one was sent and the upstream itself gave no SERVFAIL for the key: the failure was kept", name, d.at-v.o.SentAt, v.outcome.Forward, earlier.o.Op.Idx, v.o.SentAt-earlier.o.Resps[0].At)
				} else if fetched && m.Rcode() == 2 {
					h.S.Probe("c08_servfail_fetched")
				}
			}
			if len(m.An)+len(m.Ns)+len(stripOPT(m.Ar)) == 0 && len(v.q.Q) == 1 && v.outcome.Kind == "forward" && v.supported && m.Rcode() != 2 {
				fetched := false
				if u := h.Ups[v.outcome.Forward]; u != nil {
					for _, q := range u.Queries {
						if q.Decoded && q.At >= v.o.SentAt && q.At <= d.at && q.Name.Lower().Equal(v.lower) && q.Type == v.q.Q[0].Type && q.Class == v.q.Q[0].Class {
							fetched = true
						}
					}
				}
				var freshest *serialRec
				for _, s := range list {
					if s.reply.At < d.at && s.rcode == m.Rcode() && len(s.orig.An)+len(s.orig.Ns)+len(stripOPT(s.orig.Ar)) == 0 {
						if freshest == nil || s.reply.At > freshest.reply.At {
							freshest = s
						}
					}
				}
				if !fetched && freshest != nil {
					h.S.Probe("c08_recordless_hit_checked")
					age := (d.at - clMax) - (freshest.reply.At + upMax)
					if age > freshest.lifetime+2*time.Second+sigma {
						h.S.Fail("C08", "served-after-expiry", "%s: a record-less answer (rcode %d) was served from cache at least %v after the freshest such answer the upstream gave; its lifetime is %v (+2s granularity)", name, m.Rcode(), age, freshest.lifetime)
					}
				}
			}
			continue
		}
		// find the serial record the response claims
		var sr *serialRec
		for _, cand := range serials[meta.Up+"|"+peers.KeyOf(v.lower, meta.Class, meta.Type)] {
			if cand.serial == meta.Serial && cand.token == meta.Token {
				sr = cand
			}
		}
		if sr == nil {
			continue // C04 reports unattributable data
		}
		// a response is a cache hit iff the query was sent after the upstream had sent that serial.
		hit := v.o.SentAt > sr.reply.At
		if !hit {
			if _, seen := first[sr.up+sr.key+fmt.Sprint(sr.serial)]; !seen && len(d.raw) <= sizeLimit(v) {
				first[sr.up+sr.key+fmt.Sprint(sr.serial)] = &firstRelay{m, d.at, len(d.raw)}
			}
			continue
		}
		h.S.Probe("cache_hit")
		// ---- C07 (a): same question
		if meta.Token != op.Token || meta.Class != v.q.Q[0].Class || meta.Type != v.q.Q[0].Type {
			h.S.Fail("C07", "hit-for-other-question", "%s asked class %d type %d and was served from cache an answer stored for token %s class %d type %d (upstream %s serial %d)", name, v.q.Q[0].Class, v.q.Q[0].Type, meta.Token, meta.Class, meta.Type, meta.Up, meta.Serial)
			continue
		}
		// ---- C07 (b): same client group
		if len(rp.Cache.IpMarker) > 0 && sr.groupKnown {
			h.S.Probe("c07_group_checked")
			if sr.group != myGroup {
				h.S.Fail("C07", "hit-across-groups", "%s is in group %q and was served from cache an answer fetched for group %q (upstream %s serial %d)", name, myGroup, sr.group, sr.up, sr.serial)
			}
		}
		// ---- C07 (c): equals the first relay apart from TTL and ID
		if fr := first[sr.up+sr.key+fmt.Sprint(sr.serial)]; fr != nil && len(d.raw) < sizeLimit(v) {
			h.S.Probe("c07_compared_with_first_relay")
			// (TC may legitimately differ: either response may have been cut for its transport; C09 owns that bit)
			mask := uint16(refdns.BitAA | refdns.BitAD | refdns.BitCD | refdns.BitRA | refdns.BitQR | 0xF | 0x7800)
			if m.Bits&mask != fr.m.Bits&mask {
				h.S.Fail("C07", "hit-header", "%s: cached response header %04x, first relay %04x", name, m.Bits, fr.m.Bits)
			}
			same := func(a, b []refdns.RR) bool {
				if len(a) != len(b) {
					return false
				}
				for i := range a {
					if !a[i].EqualNoTTL(b[i]) {
						return false
					}
				}
				return true
			}
			// a hit that is cut (TC) although the first relay, complete, was no
			// larger than what this client's transport carries: the stored copy
			// itself has lost records
			// (the proxy cuts where the bytes written so far plus the next
			// record's uncompressed length pass the limit; so a limit of the
			// first relay's size plus its largest record cannot cut anything)
			maxRec := 0
			for _, sec := range [][]refdns.RR{fr.m.An, fr.m.Ns, fr.m.Ar} {
				for _, r := range sec {
					maxRec = max(maxRec, len(r.Name)+10+len(r.Data))
				}
			}
			if m.Has(refdns.BitTC) && !fr.m.Has(refdns.BitTC) && !sr.tc && fr.size+maxRec+32 < sizeLimit(v) {
				h.S.Fail("C07", "hit-differs-from-first-relay", "%s: cached response is truncated (%d bytes, limit %d) although the first relay of that answer was complete in %d bytes: %s vs %s", name, len(d.raw), sizeLimit(v), fr.size, summarize(m), summarize(fr.m))
			}
			// only comparable when neither was truncated for its transport
			if !m.Has(refdns.BitTC) && !fr.m.Has(refdns.BitTC) || sr.tc {
				if !same(m.An, fr.m.An) || !same(m.Ns, fr.m.Ns) || !sameMultiset(stripOPT(m.Ar), stripOPT(fr.m.Ar)) {
					h.S.Fail("C07", "hit-differs-from-first-relay", "%s: cached response %s differs from the first relay %s", name, summarize(m), summarize(fr.m))
				}
			}
		}
		// ---- C08: ageing
		// earliest moment the proxy can have built this response (a large one may
		// spend many round trips on its way to the client)
		// (the proxy ages the entry when it looks it up, which is up to the
		// scheduling slack earlier than the moment it writes the response)
		servedFrom := d.at - clMax - sigma
		if len(d.raw) > 8192 || servedFrom < v.o.SentAt+clMin {
			servedFrom = v.o.SentAt + clMin
		}
		elapsedMin := servedFrom - arrivedBy(sr)
		if elapsedMin < 0 {
			elapsedMin = 0
		}
		whole := uint32(elapsedMin / time.Second)
		origBy := func(sec []refdns.RR, r refdns.RR) (uint32, bool) {
			best, found := uint32(0), false
			for _, o := range sec {
				if o.EqualNoTTL(r) {
					// identical records with different TTLs: allow the largest
					if !found || o.TTL > best {
						best = o.TTL
					}
					found = true
				}
			}
			return best, found
		}
		for si, pr := range [][2][]refdns.RR{{m.An, sr.orig.An}, {m.Ns, sr.orig.Ns}, {stripOPT(m.Ar), stripOPT(sr.orig.Ar)}} {
			for _, r := range pr[0] {
				ttlUp, ok := origBy(pr[1], r)
				if !ok {
					continue
				}
				bound := uint32(1)
				if ttlUp > whole && ttlUp-whole > 1 {
					bound = ttlUp - whole
				}
				h.S.Probe("c08_ttl_checked")
				if r.TTL > bound {
					h.S.Fail("C08", "ttl-not-aged", "%s: section %d record %s has TTL %d; upstream TTL %d, at least %d whole seconds since the fetch, so at most %d", name, si, r.Name, r.TTL, ttlUp, whole, bound)
				}
				if r.TTL == 0 {
					h.S.Fail("C08", "ttl-zero", "%s: cached record served with TTL 0 (floor is 1)", name)
				}
			}
		}
		// ---- C08: expiry
		age := (d.at - clMin) - (sr.reply.At + upMin)
		if sr.reply.Bytes > 8192 || behindBig(sr) {
			// the lifetime starts when the proxy has the whole reply, and that
			// may be seconds after the server began to send it
			age = servedFrom - arrivedBy(sr)
		}
		if age > sr.lifetime+2*time.Second+sigma {
			h.S.Fail("C08", "served-after-expiry", "%s: served from cache %v after the fetch; lifetime of that answer is %v (rcode %d, +2s granularity)", name, age, sr.lifetime, sr.rcode)
		}
		if age > sr.lifetime*3/4 {
			h.S.Probe("cache_hit_last_quarter")
		}
		// ---- C08: truncated answers are never cached
		if sr.tc {
			h.S.Fail("C08", "tc-cached", "%s: served from cache an upstream answer that had TC set (upstream %s serial %d)", name, sr.up, sr.serial)
			// C19: when that answer came from a background refresh, the complete
			// entry it replaced was still usable
			for _, prev := range list {
				if prev.positive && !prev.tc && prev.up == sr.up && prev.reply.At < sr.reply.At && (!prev.groupKnown || prev.group == myGroup) &&
					sr.reply.QueryAt >= prev.reply.At+upMin+prev.lifetime*3/4-time.Second && v.o.SentAt+clMax < prev.reply.At+upMin+prev.lifetime-2*time.Second {
					h.S.Fail("C19", "failed-refresh-replaced-entry", "%s: the background refresh of a live entry (serial %d) was answered with TC set (serial %d) and that answer replaced the entry", name, prev.serial, sr.serial)
					break
				}
			}
		}
		// ---- C08: an error never displaces a live positive entry
		if !sr.positive {
			for _, prev := range list {
				// (whichever of the two came in first: a positive answer replaces a
				// negative entry, a negative one does not replace a live positive
				// entry - once both are in, the positive one is what the cache holds)
				bothIn := arrivedBy(prev)+sigma < v.o.SentAt+clMin && arrivedBy(sr)+sigma < v.o.SentAt+clMin && reached(prev, v.o.SentAt)
				if prev.positive && !prev.tc && (prev.reply.At < sr.reply.At && reached(prev, sr.reply.QueryAt) || bothIn) && (!prev.groupKnown || prev.group == myGroup) && prev.up == sr.up {
					liveUntil := prev.reply.At + upMin + prev.lifetime - 2*time.Second
					// (the second level takes stores only after its first successful
					// ping, one second after start-up)
					kept := ample || redisDurable >= 0 && sr.reply.QueryAt >= prev.reply.At+upMax+sigma+redisDurable &&
						prev.reply.At >= time.Second+us(rp.Cache.Redis.LatUs[1])+100*time.Millisecond+sigma
					if sr.reply.At+upMax+sigma < liveUntil && v.o.SentAt+clMax < liveUntil && kept && prev.groupKnown && sr.groupKnown && sr.group == prev.group {
						h.S.Fail("C08", "error-displaced-positive", "%s: served negative serial %d (rcode %d) although positive serial %d, fetched %v earlier with lifetime %v, was still live", name, sr.serial, sr.rcode, prev.serial, sr.reply.At-prev.reply.At, prev.lifetime)
						// the same observation is C19's "a failed refresh leaves the old entry
						// usable" when the negative answer was fetched by a background
						// refresh: inside the old entry's last quarter, with no request
						// waiting for it
						if sr.reply.QueryAt >= prev.reply.At+upMin+prev.lifetime*3/4-time.Second && len(sr.groups) > 0 {
							waiting := false
							for _, w := range vs {
								if w.q != nil && w.o.Op.Raw == nil && len(w.q.Q) == 1 && w.o.Op.Token == sr.token && peers.KeyOf(w.lower, w.q.Q[0].Class, w.q.Q[0].Type) == sr.key &&
									w.o.SentAt <= sr.reply.QueryAt && (len(w.o.Resps) == 0 || w.o.Resps[0].At >= sr.reply.At) {
									waiting = true
								}
							}
							if !waiting {
								h.S.Fail("C19", "failed-refresh-replaced-entry", "%s: the background refresh of a live entry (positive serial %d) was answered with rcode %d (serial %d) and that answer replaced the entry", name, prev.serial, sr.rcode, sr.serial)
							}
						}
					}
				}
			}
		}
		// ---- C19: a hit is answered immediately
		if rs := rp.Cache.Redis; rs != nil && (rs.SlowGetUs[1] > 0 || len(rs.DownUs) > 0) {
			// a lookup in a slow or silent second level takes what it takes
		} else if lat := d.at - v.o.SentAt; lat > 2*clMax+sigma+200*time.Millisecond+redisRTT {
			h.S.Fail("C19", "hit-delayed", "%s: cache hit answered after %v", name, lat)
		}
	}

	// ---- C07 converse / C19 refresh: with ample capacity a repeat while more
	// than 1 s of lifetime remains is not a request-path exchange.
	if (ample || redisDurable >= 0 && rp.Cache.MemSize == 0) && faultFree {
		for _, d := range ds {
			v, m := d.v, d.m
			op := v.o.Op
			opKey := peers.KeyOf(v.lower, v.q.Q[0].Class, v.q.Q[0].Type)
			myGroup := refGroup(rp, v.srcSeen)
			list := serials[v.outcome.Forward+"|"+opKey]
			meta, ok := peers.DecodeMeta(m)
			if !ok || len(list) == 0 {
				continue
			}
			arrive := v.o.SentAt + clMax + sigma // latest time the query reached the proxy
			// the serial the response carries
			var got0 *serialRec
			for _, s := range list {
				if s.serial == meta.Serial {
					got0 = s
				}
			}
			if got := got0; got != nil {
				// C19: after a successful positive refresh later hits see the new serial
				var newest *serialRec
				for _, s := range list {
					if s.positive && !s.tc && s.groupKnown && s.group == myGroup && arrivedBy(s) < v.o.SentAt+clMin && (reached(s, 1<<62) || surelyArrived(s)) && (ample || redisKept(s, v.o.SentAt+clMin)) {
						if newest == nil || s.reply.At > newest.reply.At {
							newest = s
						}
					}
				}
				// (stores happen in arrival order; two replies sent within one latency
				// span of each other may arrive in either order)
				if newest != nil && got.positive && got.reply.At+upMax+sigma < newest.reply.At+upMin {
					h.S.Fail("C19", "refresh-not-visible", "%s got serial %d from cache although the refresh that fetched serial %d had completed %v earlier", fmt.Sprintf("op %d (token %s)", op.Idx, op.Token), got.serial, newest.serial, v.o.SentAt-newest.reply.At)
				}
			}
			// is there an entry that must be live for this client at that time?
			var must *serialRec
			for _, s := range list {
				if s.tc || !s.groupKnown || s.group != myGroup || !reached(s, v.o.SentAt) || !storedForSure(list, s) {
					continue
				}
				if !ample && !redisKept(s, v.o.SentAt+clMin) {
					continue
				}
				if superseded(list, s, arrive) {
					continue
				}
				stored := arrivedBy(s)
				if stored < v.o.SentAt+clMin && arrive < s.reply.At+upMin+s.lifetime-2100*time.Millisecond {
					// later negative answers are set-if-absent and cannot replace it;
					// later positive ones replace it with something at least as fresh
					must = s
				}
			}
			if must == nil {
				continue
			}
			if !must.positive {
				// a negative entry may be replaced by a positive refresh only; still a hit is expected
			}
			h.S.Probe("c07_hit_expected")
			// the response must carry a serial generated before the query was sent
			var got *serialRec
			for _, s := range list {
				if s.serial == meta.Serial {
					got = s
				}
			}
			if got == nil {
				continue
			}
			// In the last quarter of the entry's lifetime another client's hit may
			// have started a background refresh whose result this (slowly
			// connecting) client was then served from cache: not a miss.
			if got.reply.QueryAt >= must.reply.At+upMin+must.lifetime*3/4-2*time.Second {
				continue
			}
			if got.reply.QueryAt > v.o.SentAt+clMin-time.Millisecond && got.reply.At > v.o.SentAt {
				h.S.Fail("C07", "miss-despite-live-entry", "%s in group %q was answered by a new upstream exchange (serial %d) although serial %d, fetched %v before with lifetime %v for the same group, was still live", fmt.Sprintf("op %d (token %s)", op.Idx, op.Token), myGroup, got.serial, must.serial, v.o.SentAt-must.reply.At, must.lifetime)
			}
		}
	}

	// ---- C19: at most one refresh in flight per (question, group) while the entry is live.
	for k, list := range serials {
		_ = k
		for i, a := range list {
			for _, b := range list[i+1:] {
				if !a.groupKnown || !b.groupKnown || a.group != b.group {
					continue
				}
				// overlap of [QueryAt, end), where an exchange ends when the reply is
				// sent or when the proxy abandoned the connection it was sent on.
				end := func(s *serialRec) time.Duration {
					e := s.reply.At
					if g, ok := h.Ups[s.up].ConnGone[s.reply.Conn]; ok && g < e && g >= s.reply.QueryAt {
						e = g
					}
					// the proxy may have closed its end even before the query
					// reached the server (e.g. the idle deadline of a pipelined
					// connection expiring right after a write): that exchange was
					// over, for the proxy, at the moment of the close
					if g, ok := h.Ups[s.up].ConnAbandoned[s.reply.Conn]; ok && g < e {
						e = g
					}
					if h.Ups[s.up].Spec.Kind == "udp" && vnet.W != nil {
						if g, ok := vnet.W.ProxyUDPClosedAt(s.reply.Conn); ok && g < e {
							e = g
						}
					}
					return e
				}
				if kind := h.Ups[a.up].Spec.Kind; kind == "https" || kind == "http" || kind == "h3" || kind == "quic" {
					continue // no per-exchange connection identity at these fake servers
				}
				// When the upstream fails an exchange of this key (silence, garbage),
				// the transport may re-send the query on another connection and then
				// abandon it; the server cannot tell that copy from a refresh, so the
				// invariant is only evaluated for keys whose exchanges all succeed.
				if !allActs(h.RP.Tokens[a.token], replyAct) {
					continue
				}
				// a query that follows an unanswered one of the same key whose
				// connection the proxy has dropped meanwhile (a malformed reply to
				// anybody on a pipelined connection takes all its exchanges down) is
				// that exchange being sent again, not a new decision to fetch
				resend := func(x *serialRec) bool {
					for _, c := range list {
						if c == x || c.reply.QueryAt >= x.reply.QueryAt || c.reply.At <= x.reply.QueryAt {
							continue
						}
						if e := end(c); e <= x.reply.QueryAt && e < c.reply.At {
							return true
						}
					}
					return false
				}
				if resend(a) || resend(b) {
					continue
				}
				if b.reply.QueryAt < end(a) && a.reply.QueryAt < end(b) {
					// both in flight together: only legitimate when no live entry existed when the later one started
					later := b
					if a.reply.QueryAt > b.reply.QueryAt {
						later = a
					}
					for _, s := range list {
						if s == a || s == b || s.tc || !s.groupKnown || s.group != a.group || !reached(s, later.reply.QueryAt) || !storedForSure(list, s) {
							continue
						}
						if superseded(list, s, later.reply.QueryAt) {
							continue
						}
						liveFrom := arrivedBy(s)
						liveTo := s.reply.At + upMin + s.lifetime - 2100*time.Millisecond
						startProxy := later.reply.QueryAt - upMax - sigma // when the proxy decided to send it, at the earliest
						if liveFrom < startProxy && later.reply.QueryAt < liveTo && ample {
							h.S.Probe("c19_overlap_examined")
							h.S.Fail("C19", "concurrent-refresh", "upstream %s saw two exchanges in flight together for key %s group %q (serials %d and %d, queries at %v and %v) while serial %d was still live in the cache", a.up, a.key, a.group, a.serial, b.serial, a.reply.QueryAt, b.reply.QueryAt, s.serial)
						}
					}
				}
			}
		}
	}
}

// ---- C15 end to end ----

func checkC15e2e(h *History, vs []*opView) {
	rp := h.RP
	if rp.Limiter.Limit <= 0 || h.P.Focus != "C15" {
		return
	}
	rate := float64(rp.Limiter.Limit)
	burst := rp.Limiter.Burst
	if burst <= 0 {
		burst = int(rate)
	}
	type ev struct {
		at       time.Duration
		admitted bool
		v        *opView
	}
	bySubnet := map[netip.Prefix][]ev{}
	inUpstream := map[string]bool{}
	for _, tag := range h.UpOrder {
		for _, q := range h.Ups[tag].Queries {
			inUpstream[q.Token] = true
		}
	}
	for _, v := range vs {
		if v.q == nil || !v.srcSeen.IsValid() {
			continue
		}
		sn := subnetOf(rp.Limiter, v.srcSeen)
		admitted, refused := false, false
		for i, r := range v.o.Resps {
			switch {
			case v.isHTTP && r.Status == 503:
				refused = true
			case v.isHTTP && r.Status != 200:
			case v.resps[i] != nil && v.resps[i].Rcode() == 5:
				refused = true
			case v.resps[i] != nil:
				admitted = true
			}
		}
		name := fmt.Sprintf("op %d (%s from %s, subnet %s)", v.o.Op.Idx, v.srv.Proto, v.cc.Src, sn)
		if refused {
			h.S.Probe("c15_e2e_refused")
			if inUpstream[v.o.Op.Token] {
				h.S.Fail("C15", "refused-but-forwarded", "%s was refused by the limiter but its question reached an upstream", name)
			}
		}
		if v.srv.Proto == "udp" && len(v.o.Resps) == 0 && v.o.Op.Raw == nil && !inUpstream[v.o.Op.Token] {
			// neither forwarded nor answered: client links lose nothing here, so
			// the limiter refused it and the REFUSED answer did not reach the
			// client (e.g. it left from another local address)
			h.S.Fail("C15", "refused-unanswered", "%s got no response at all and was not forwarded: a refused UDP query is answered REFUSED", name)
		}
		if v.isHTTP && len(v.o.Resps) > 0 && v.o.Resps[0].Status != 200 && v.o.Resps[0].Status != 503 && v.o.Op.HTTPVariant == "" {
			h.S.Fail("C15", "http-refusal-status", "%s: HTTP status %d (refusals must be 503)", name, v.o.Resps[0].Status)
		}
		if admitted {
			h.S.Probe("c15_e2e_admitted")
		}
		bySubnet[sn] = append(bySubnet[sn], ev{v.o.SentAt, admitted, v})
	}
	// twins: the first was refused every time it asked before phase 3 (the
	// shared budget was exhausted then), the second did not ask at all - neither
	// has had anything admitted, so from phase 3 on, asking the same listener the
	// same questions at the same time, they fare alike
	for _, tw := range rp.Limiter.Twins {
		a1, a2, n1, n2 := 0, 0, 0, 0
		ok := true
		for _, v := range vs {
			if v.q == nil || !v.srcSeen.IsValid() {
				continue
			}
			adm, ref := false, false
			for i := range v.o.Resps {
				if v.resps[i] != nil && v.resps[i].Rcode() == 5 {
					ref = true
				} else if v.resps[i] != nil {
					adm = true
				}
			}
			early := v.o.SentAt < us(tw.Phase3Us)-time.Millisecond
			switch v.cc.Src {
			case tw.V1:
				if early {
					if !ref || adm {
						ok = false // something was admitted (or lost) earlier: the twins differ legitimately
					}
				} else {
					n1++
					if adm {
						a1++
					}
				}
			case tw.V2:
				if early {
					ok = false
				} else {
					n2++
					if adm {
						a2++
					}
				}
			}
		}
		h.S.Logf("c15_twins", "comparable=%v first: %d asked %d admitted, second: %d asked %d admitted", ok, n1, a1, n2, a2)
		if ok && n1 == n2 && n1 > 0 {
			h.S.Probe("c15_twins_checked")
			if a1 != a2 {
				h.S.Fail("C15", "twin-subnets-differ", "subnets of %s and %s asked %d questions each at the same times from %v on and neither had had anything admitted before (the first had only been refused while other subnets had exhausted the global limit), yet %d and %d were admitted: refusals caused by others' traffic were charged to the first one's budget", tw.V1, tw.V2, n1, us(tw.Phase3Us), a1, a2)
			}
		}
	}
	// the window is measured at the clients; admission happens one latency (for
	// stream and QUIC listeners up to a few round trips of connection set-up
	// and flow control) and possibly an injected stall later
	slackT := us(rp.Net.ClientLatUs[1]-rp.Net.ClientLatUs[0]).Seconds() + 0.01 + stallSlack(h.P).Seconds() + 6*us(rp.Net.ClientLatUs[1]).Seconds()
	for sn, l := range bySubnet {
		sort.SliceStable(l, func(i, j int) bool { return l[i].at < l[j].at })
		// bound: each admitted query costs at least 1
		for i := range l {
			n := 0
			for j := i; j < len(l); j++ {
				if l[j].admitted {
					n++
				}
				w := (l[j].at - l[i].at).Seconds() + slackT
				if float64(n) > float64(burst)+rate*w+1e-6 {
					h.S.Fail("C15", "bound-e2e", "subnet %s: %d queries admitted within %.3fs; bound burst %d + rate %.0f x window = %.2f", sn, n, w, burst, rate, float64(burst)+rate*w)
					i = len(l)
					break
				}
			}
		}
		// isolation: a subnet whose total demand, at the highest conceivable
		// cost per query, stays inside its burst cannot be refused (global limit off)
		if rp.Limiter.Global == 0 && 64*len(l) <= burst {
			h.S.Probe("c15_e2e_victim_checked")
			for _, e := range l {
				if !e.admitted && len(e.v.o.Resps) > 0 {
					h.S.Fail("C15", "victim-refused", "subnet %s sent only %d queries (burst %d) and op %d was refused: other subnets' traffic was charged to it", sn, len(l), burst, e.v.o.Op.Idx)
				}
				// refusal of the connection itself (stream listeners close it, the
				// DoQ listener closes it with "overloaded"): nothing else fails in
				// these runs (upstreams answer, no network faults)
				if !e.admitted && len(e.v.o.Resps) == 0 && e.v.o.Sent && (strings.Contains(e.v.o.Err, "overloaded") || e.v.isStream && e.v.cr.PeerGoneAt > 0 && e.v.cr.PeerGoneAt < e.v.cr.OpenedAt+time.Second) {
					h.S.Fail("C15", "victim-refused", "subnet %s sent only %d queries (burst %d) and the connection of op %d was refused (%s): other subnets' traffic was charged to it", sn, len(l), burst, e.v.o.Op.Idx, e.v.o.Err)
				}
			}
		}
	}
}

// ---- C17: two upstreams, one server, different trust ----

func checkC17pair(h *History, vs []*opView) {
	specs := map[string]*plan.UpstreamSpec{}
	for i := range h.RP.Upstreams {
		specs[h.RP.Upstreams[i].Tag] = &h.RP.Upstreams[i]
	}
	via := map[string]*plan.UpstreamSpec{} // token -> upstream the rules select
	for _, v := range vs {
		if v.q == nil || !v.supported || v.outcome.Kind != "forward" {
			continue
		}
		sp := specs[v.outcome.Forward]
		if sp == nil {
			continue
		}
		via[v.o.Op.Token] = sp
		name := fmt.Sprintf("op %d via upstream %s (%s, ca=%v other_ca=%v)", v.o.Op.Idx, sp.Tag, sp.Addr, sp.UseCA, sp.OtherCA)
		answered := false
		for _, m := range v.resps {
			if m == nil {
				continue
			}
			if _, ok := peers.DecodeMeta(m); ok && m.Rcode() == 0 {
				answered = true
			}
		}
		if sp.MustFail {
			h.S.Probe("c17_pair_mustfail_checked")
			if answered {
				h.S.Fail("C17", "unauthenticated-upstream-accepted", "%s: the exchange succeeded although the server's certificate does not chain to this upstream's trust anchors (another upstream with the same server name can authenticate it)", name)
			}
		} else {
			h.S.Probe("c17_pair_ok_checked")
			if !answered && len(v.o.Resps) > 0 && v.keptOpen > 7*time.Second {
				h.S.Fail("C17", "authenticated-upstream-rejected", "%s: no answer although the server presents a valid certificate for this upstream's CA", name)
			}
		}
	}
	for _, tag := range h.UpOrder {
		for _, q := range h.Ups[tag].Queries {
			if sp := via[q.Token]; sp != nil && sp.MustFail {
				h.S.Fail("C17", "query-sent-to-unauthenticated-peer", "the server received the query of token %s, which the rules route through upstream %s that cannot authenticate it", q.Token, sp.Tag)
			}
		}
	}
}

// ---- C17 (c): listener mTLS ----

func checkC17mtls(h *History, vs []*opView) {
	for _, v := range vs {
		if !v.srv.MTLS {
			continue
		}
		acceptable := v.cc.ClientCert == "good"
		answered := false
		for i, r := range v.o.Resps {
			if (!v.isHTTP || r.Status == 200) && v.resps[i] != nil {
				answered = true
			}
		}
		h.S.Probe("c17_mtls_checked")
		if !acceptable {
			h.S.Probe("c17_mtls_unacceptable_client")
		}
		if answered && !acceptable {
			h.S.Fail("C17", "mtls-bypassed", "op %d: %s listener with verify_client_cert answered a client presenting %q certificate", v.o.Op.Idx, v.srv.Proto, v.cc.ClientCert)
		}
	}
}

// upstreamHealthy: nothing in the plan keeps a query from reaching the
// upstream's server or its reply from coming back (the server's own scripted
// behaviour per question apart).
func upstreamHealthy(h *History, tag string) bool {
	rp := h.RP
	n := rp.Net
	if n.UpDrop > 0 || n.UpCorrupt > 0 || n.UpDup > 0 || len(n.Partitions) > 0 || n.Connect[tag] != "" {
		return false
	}
	return !limiterOn(rp) && rp.CloseAtUs == 0
}
