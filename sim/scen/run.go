package scen

import (
	"testing"

	"github.com/IrineSistiana/mosproxy/verifsim/plan"
)

// Run dispatches on the plan's family.
func Run(t *testing.T, p *plan.Plan, keepLog int) *Result {
	switch p.Family {
	case "router":
		if p.Arm == "cli" {
			return RunCLI(t, p, keepLog)
		}
		return RunRouter(t, p, keepLog)
	case "xport":
		return RunXport(t, p, keepLog)
	case "limiter":
		return RunLimiter(t, p, keepLog)
	case "addr":
		return RunAddr(t, p, keepLog)
	case "auth":
		return RunAuth(t, p, keepLog)
	case "latedial":
		return RunLateDial(t, p, keepLog)
	case "codec":
		return RunCodec(t, p, keepLog)
	}
	return &Result{Seed: p.Seed, Family: p.Family, Focus: p.Focus, Note: "unknown family"}
}
