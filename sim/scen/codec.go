package scen

import (
	"fmt"
	"golang.org/x/net/dns/dnsmessage"
	"strings"
	"testing"
	"testing/synctest"

	"github.com/IrineSistiana/mosproxy/internal/dnsmsg"
	"github.com/IrineSistiana/mosproxy/internal/mlog"
	"github.com/IrineSistiana/mosproxy/verifsim/peers"
	"github.com/IrineSistiana/mosproxy/verifsim/plan"
	"github.com/IrineSistiana/mosproxy/verifsim/refdns"
	"github.com/IrineSistiana/mosproxy/verifsim/sim"
	"github.com/IrineSistiana/mosproxy/verifsim/vnet"
	"github.com/rs/zerolog"
)

// RunCodec drives the wire codec directly (C02's statement is about
// Unpack/Pack as such; through a router the OPT handling hides the order of
// the additional section): a *history* of generated messages - valid ones and
// ones cut short - goes through dnsmsg.UnpackMsg and Msg.Pack (no size limit,
// with and without compression) under the pool facades, with several decoded
// messages alive at a time, so that whatever a message or a failed decode
// leaves behind in the recycled objects and buffers meets the next ones.  The
// re-encoded bytes are decoded by the harness's independent strict codec and
// compared with the generated original, record by record, in order.
func RunCodec(t *testing.T, p *plan.Plan, keepLog int) *Result {
	res := &Result{Seed: p.Seed, Family: p.Family, Focus: p.Focus, Arm: p.Arm, Stats: map[string]int64{}}
	mlog.SetLvl(zerolog.Disabled)
	func() {
		defer func() {
			if r := recover(); r != nil {
				if msg := fmt.Sprint(r); strings.Contains(msg, "deadlock") && strings.Contains(msg, "bubble") {
					return
				}
				panic(r)
			}
		}()
		synctest.Test(t, func(t *testing.T) {
			s := sim.New(p.Seed, keepLog)
			vnet.NewWorld(s)
			installKnobs(s, p.Knobs)
			defer uninstallKnobs()
			type live struct {
				m    *dnsmsg.Msg
				orig *refdns.Msg
				it   *plan.CodecItem
			}
			var ring []live
			check := func(l live) {
				for _, compression := range []bool{false, true} {
					want := l.m.Len()
					// a buffer of exactly the advertised length, as every caller
					// in the proxy allocates it
					buf := make([]byte, want)
					n, err := l.m.Pack(buf, compression, 0)
					name := fmt.Sprintf("message %d (shape %s, compression %v)", l.it.Idx, l.it.Ans.Shape, compression)
					if err != nil {
						s.Fail("C02", "pack-failed", "%s: Pack of an accepted message failed: %v", name, err)
						continue
					}
					if !compression && n != want {
						s.Fail("C02", "advertised-length", "%s: Len() = %d, the uncompressed encoding has %d bytes", name, want, n)
					}
					got, perr := refdns.Parse(buf[:n])
					if perr != nil {
						s.Fail("C02", "encoded-undecodable", "%s: the re-encoding does not decode (%v): %x", name, perr, trunc(buf[:n], 96))
						continue
					}
					s.Probe("c02_codec_compared")
					if d := diffMsg(l.orig, got); d != "" {
						s.Fail("C02", "content-changed", "%s: decode + re-encode changed the message: %s", name, d)
					}
					// the proxy's own decoder and a second independent one
					// (golang.org/x/net/dns/dnsmessage, the parser behind Go's
					// resolver) have to accept the encoding as well
					if m2, err := dnsmsg.UnpackMsg(buf[:n]); err != nil {
						s.Fail("C02", "self-undecodable", "%s: the proxy's own decoder rejects the proxy's encoding (%v): %x", name, err, trunc(buf[:n], 96))
					} else {
						dnsmsg.ReleaseMsg(m2)
					}
					// (only for content that parser accepts at all: it refuses, for
					// instance, labels that contain a dot; the reference layout of the
					// same content - no compression - tells)
					if xnetParse(refdns.Pack(l.orig, refdns.PackOpts{})) != nil {
						s.Probe("c02_codec_xnet_content_skipped")
					} else if err := xnetParse(buf[:n]); err != nil {
						s.Fail("C02", "encoded-undecodable", "%s: golang.org/x/net/dns/dnsmessage rejects the proxy's encoding (%v): %x", name, err, trunc(buf[:n], 96))
					}
				}
			}
			// C09 at the codec: a size limit equal to the uncompressed length
			// omits nothing and adds no TC; one octet less truncates properly
			checkLimit := func(l live) {
				u := l.m.Len()
				if u < 512 || u > 65535 {
					return
				}
				// Pack with a limit moves the OPT record to the end of the
				// additional section; compare with the OPT taken out of both
				noOpt := func(m *refdns.Msg) *refdns.Msg {
					c := *m
					c.Ar = nil
					for _, r := range m.Ar {
						if r.Type != refdns.TypeOPT {
							c.Ar = append(c.Ar, r)
						}
					}
					return &c
				}
				nOpt := len(l.orig.OPTs())
				for _, compression := range []bool{false, true} {
					buf := make([]byte, u+16)
					n, err := l.m.Pack(buf, compression, u)
					name := fmt.Sprintf("message %d (shape %s, compression %v, limit = uncompressed length %d)", l.it.Idx, l.it.Ans.Shape, compression, u)
					if err != nil {
						s.Fail("C09", "pack-failed", "%s: %v", name, err)
						continue
					}
					got, perr := refdns.Parse(buf[:n])
					if perr != nil {
						s.Fail("C09", "malformed", "%s: does not decode: %v", name, perr)
						continue
					}
					s.Probe("c09_codec_exact_fit_checked")
					if n > u {
						s.Fail("C09", "size", "%s: %d bytes", name, n)
					}
					if got.Has(refdns.BitTC) != l.orig.Has(refdns.BitTC) || len(got.OPTs()) != nOpt {
						s.Fail("C09", "fits-but-truncated", "%s: TC %v (original %v), %d OPT records (original %d)", name, got.Has(refdns.BitTC), l.orig.Has(refdns.BitTC), len(got.OPTs()), nOpt)
					} else {
						// (taking the OPT record out swaps it with the last additional
						// record: the order of that section is not part of the claim)
						a, b := noOpt(l.orig), noOpt(got)
						arA, arB := a.Ar, b.Ar
						a.Ar, b.Ar = nil, nil
						if d := diffMsg(a, b); d != "" {
							s.Fail("C09", "fits-but-truncated", "%s: %s", name, d)
						} else if !sameMultiset(arA, arB) {
							s.Fail("C09", "fits-but-truncated", "%s: additional section %d records became %d, or different ones", name, len(arA), len(arB))
						}
					}
				}
				if u-1 >= 512 {
					buf := make([]byte, u+16)
					n, err := l.m.Pack(buf, false, u-1)
					name := fmt.Sprintf("message %d (shape %s, no compression, limit %d = uncompressed length - 1)", l.it.Idx, l.it.Ans.Shape, u-1)
					if err != nil {
						s.Fail("C09", "pack-failed", "%s: %v", name, err)
						return
					}
					got, perr := refdns.Parse(buf[:n])
					switch {
					case perr != nil:
						s.Fail("C09", "malformed", "%s: does not decode: %v", name, perr)
					case n > u-1:
						s.Fail("C09", "size", "%s: %d bytes", name, n)
					case len(l.orig.An)+len(l.orig.Ns)+len(stripOPT(l.orig.Ar)) > 0 && !got.Has(refdns.BitTC):
						s.Fail("C09", "tc-missing", "%s: records were omitted (%d bytes) but TC is not set", name, n)
					case len(got.OPTs()) != nOpt:
						s.Fail("C09", "opt-lost", "%s: %d OPT records, original %d", name, len(got.OPTs()), nOpt)
					}
				}
			}
			for i := range p.Codec.Items {
				it := &p.Codec.Items[i]
				nm := refdns.NameFromLabels(it.Labels...)
				orig := peers.Generate(p.Seed, "up0", it.Token, nm, it.Class, it.Type, &it.Ans, 1+i, "", 0)
				orig.ID = uint16(1000 + i)
				wire := refdns.Pack(orig, peers.PackOptsFor(it.Ans.Compress))
				if it.CutAt > 0 && len(wire) > 13 {
					cut := wire[:12+it.CutAt%(len(wire)-12)]
					if m, err := dnsmsg.UnpackMsg(cut); err == nil {
						// a cut that happens to fall where the counts are satisfied cannot occur: the header promises more
						s.Fail("C01", "accepted-truncated", "message %d cut to %d of %d bytes was accepted", it.Idx, len(cut), len(wire))
						dnsmsg.ReleaseMsg(m)
					}
					s.Probe("c02_codec_cut_rejected")
					continue
				}
				m, err := dnsmsg.UnpackMsg(wire)
				if err != nil {
					s.Fail("C02", "rejects-valid", "message %d (shape %s, %d bytes) is rejected: %v: %x", it.Idx, it.Ans.Shape, len(wire), err, trunc(wire, 96))
					continue
				}
				// the reference decoding of what was sent (the generator's view and
				// the wire agree by construction; use the wire so that both sides
				// went through a decoder)
				ref, perr := refdns.Parse(wire)
				if perr != nil {
					s.Fail("C02", "harness", "generated message %d does not decode: %v", it.Idx, perr)
					dnsmsg.ReleaseMsg(m)
					continue
				}
				ring = append(ring, live{m, ref, it})
				if len(ring) > p.Codec.Alive {
					l := ring[0]
					ring = ring[1:]
					check(l)
					checkLimit(l)
					dnsmsg.ReleaseMsg(l.m)
				}
			}
			for _, l := range ring {
				check(l)
				checkLimit(l)
				dnsmsg.ReleaseMsg(l.m)
			}
			finishSimple(s, res, keepLog, true)
		})
	}()
	return res
}

// diffMsg compares two decoded messages: header, question, and every section
// record by record in order (names octet-exact, RDATA canonical).
func diffMsg(a, b *refdns.Msg) string {
	if a.ID != b.ID || a.Bits != b.Bits {
		return fmt.Sprintf("header %04x/%04x became %04x/%04x", a.ID, a.Bits, b.ID, b.Bits)
	}
	if len(a.Q) != len(b.Q) {
		return fmt.Sprintf("%d questions became %d", len(a.Q), len(b.Q))
	}
	for i := range a.Q {
		if !a.Q[i].Name.Equal(b.Q[i].Name) || a.Q[i].Type != b.Q[i].Type || a.Q[i].Class != b.Q[i].Class {
			return fmt.Sprintf("question %d: %v became %v", i, a.Q[i], b.Q[i])
		}
	}
	for si, pr := range [][2][]refdns.RR{{a.An, b.An}, {a.Ns, b.Ns}, {a.Ar, b.Ar}} {
		if len(pr[0]) != len(pr[1]) {
			return fmt.Sprintf("section %d: %d records became %d", si, len(pr[0]), len(pr[1]))
		}
		for i := range pr[0] {
			if !pr[0][i].Equal(pr[1][i]) {
				return fmt.Sprintf("section %d record %d: %s became %s", si, i, pr[0][i], pr[1][i])
			}
		}
	}
	return ""
}

// xnetParse runs golang.org/x/net/dns/dnsmessage over a whole message.  A
// message the generator itself laid out in a way that parser refuses (its
// input, not the proxy's output) is not passed here.
func xnetParse(b []byte) error {
	var p dnsmessage.Parser
	if _, err := p.Start(b); err != nil {
		return err
	}
	if _, err := p.AllQuestions(); err != nil {
		return err
	}
	if _, err := p.AllAnswers(); err != nil {
		return err
	}
	if _, err := p.AllAuthorities(); err != nil {
		return err
	}
	if _, err := p.AllAdditionals(); err != nil {
		return err
	}
	return nil
}
