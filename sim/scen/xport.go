package scen

import (
	"context"
	"crypto/tls"
	"errors"
	"fmt"
	"net/netip"
	"os"
	"path/filepath"
	"sort"
	"strings"
	"sync"
	"sync/atomic"
	"testing"
	"testing/synctest"
	"time"

	"github.com/IrineSistiana/mosproxy/app/router"
	"github.com/IrineSistiana/mosproxy/internal/dnsmsg"
	"github.com/IrineSistiana/mosproxy/internal/mlog"
	"github.com/IrineSistiana/mosproxy/internal/upstream"
	"github.com/IrineSistiana/mosproxy/verifsim/peers"
	"github.com/IrineSistiana/mosproxy/verifsim/plan"
	"github.com/IrineSistiana/mosproxy/verifsim/refdns"
	"github.com/IrineSistiana/mosproxy/verifsim/sim"
	"github.com/IrineSistiana/mosproxy/verifsim/vnet"
	"github.com/rs/zerolog"
)

// CallRec is the caller-side history of one ExchangeContext.
type CallRec struct {
	C       *plan.XCall
	Start   time.Duration
	End     time.Duration
	Done    bool
	Err     string
	Msg     *refdns.Msg
	Meta    peers.Meta
	HasMeta bool
	Limit   time.Duration // min(deadline, cancel)
	Both    bool          // a message and an error were returned together
}

type dialRec struct {
	At       time.Duration
	Network  string
	Address  string
	Resolved string
}

// XHistory is what the transport-family oracles look at.
type XHistory struct {
	P        *plan.Plan
	XP       *plan.XportPlan
	S        *sim.Sim
	Calls    []*CallRec
	Ups      []*peers.UpServer
	Dials    []dialRec
	NewErr   []error
	CloseAt  map[int][]time.Duration // per upstream: when Close was called
	CloseRet map[int][]time.Duration // when it returned
	// connections to a closed upstream's server that were open 3 s after its
	// Close returned and still 2 s later
	LeftAfterClose []string
	Open           []string
	Events         []plan.ServerEvent
	// UDPSent: queries the proxy put on the wire over UDP (seen before loss).
	UDPSent []udpSent
}

type udpSent struct {
	Conn   int
	WireID uint16
	Token  string
}

func buildUpstream(u plan.UpstreamSpec, pki *peers.PKI, dir string, idle time.Duration) (upstream.Upstream, error) {
	tc := router.TlsConfig{InsecureSkipVerify: u.Skip}
	if u.UseCA {
		tc.CA = filepath.Join(dir, "ca.pem")
	}
	tlsCfg, err := router.VMakeTlsConfig(&tc, false)
	if err != nil {
		return nil, err
	}
	opt := upstream.Opt{DialAddr: u.DialAddr, TLSConfig: tlsCfg, IdleTimeout: idle}
	return upstream.NewUpstream(u.Addr, opt)
}

func dnsToRef(m *dnsmsg.Msg) (*refdns.Msg, error) {
	b := make([]byte, m.Len()+64)
	n, err := m.Pack(b, false, 0)
	if err != nil {
		return nil, err
	}
	return refdns.Parse(b[:n])
}

func xQuery(c *plan.XCall) []byte {
	m := &refdns.Msg{ID: c.ID, Bits: refdns.BitRD, Q: []refdns.Question{{Name: refdns.NameFromLabels(append([][]byte{[]byte(c.Token)}, []byte("example"), []byte("com"))...), Type: c.Type, Class: 1}}}
	m.Ar = []refdns.RR{{Name: refdns.Root, Type: refdns.TypeOPT, Class: 1200}}
	return refdns.Pack(m, refdns.PackOpts{})
}

// RunXport executes a transport-family plan.
func RunXport(t *testing.T, p *plan.Plan, keepLog int) *Result {
	xp := p.Xport
	res := &Result{Seed: p.Seed, Family: p.Family, Focus: p.Focus, Arm: p.Arm, Stats: map[string]int64{}}
	pki := peers.NewPKI()
	dir := filepath.Join(os.TempDir(), fmt.Sprintf("verifsim-%d", os.Getpid()))
	os.RemoveAll(dir)
	if err := os.Mkdir(dir, 0o700); err != nil {
		res.Note = "tempdir: " + err.Error()
		return res
	}
	defer os.RemoveAll(dir)
	os.WriteFile(filepath.Join(dir, "ca.pem"), pki.CAPEM, 0o600)
	if p.Knobs.LogDebug {
		mlog.SetLvl(zerolog.DebugLevel)
	} else {
		mlog.SetLvl(zerolog.Disabled)
	}
	func() {
		defer func() {
			if r := recover(); r != nil {
				msg := fmt.Sprint(r)
				if strings.Contains(msg, "deadlock") && strings.Contains(msg, "bubble") {
					res.Stats["bubble_leftover_goroutines"] = 1
					return
				}
				panic(r)
			}
		}()
		synctest.Test(t, func(t *testing.T) {
			s := sim.New(p.Seed, keepLog)
			w := vnet.NewWorld(s)
			installKnobs(s, p.Knobs)
			defer uninstallKnobs()
			netPolicies(w, s, &xp.Net, nil, xp.Upstreams)
			w.ICMP = xp.Net.ICMP
			h := &XHistory{P: p, XP: xp, S: s, CloseAt: map[int][]time.Duration{}, CloseRet: map[int][]time.Duration{}, Events: xp.ServerEvents}
			var hmu sync.Mutex
			w.OnDial = func(owner vnet.Owner, network, address, resolved string) {
				if owner == vnet.OwnerProxy {
					hmu.Lock()
					h.Dials = append(h.Dials, dialRec{s.Now(), network, address, resolved})
					hmu.Unlock()
				}
			}
			w.OnUDPSend = func(owner vnet.Owner, src, dst netip.AddrPort, b []byte) {
				if owner != vnet.OwnerProxy {
					return
				}
				if m, err := refdns.Parse(b); err == nil && len(m.Q) > 0 {
					hmu.Lock()
					h.UDPSent = append(h.UDPSent, udpSent{int(src.Port()), m.ID, peers.TokenOf(m.Q[0].Name)})
					hmu.Unlock()
				}
			}
			var ups []upstream.Upstream
			for _, us := range xp.Upstreams {
				if n := hostNameOf(us.Addr); n != "" {
					if a, err := netip.ParseAddr(us.Host); err == nil {
						w.AddHost(n, a)
					}
				}
				srv := peers.NewUpServer(s, w, p.Seed, us, xp.Tokens, pki)
				srv.ReplayOnReuse = xp.Exhaust > 0
				if err := srv.Start(); err != nil {
					res.Note += "upstart:" + err.Error() + ";"
				}
				h.Ups = append(h.Ups, srv)
				u, err := buildUpstream(us, pki, dir, time.Duration(xp.IdleMs)*time.Millisecond)
				h.NewErr = append(h.NewErr, err)
				ups = append(ups, u)
			}
			var wg sync.WaitGroup
			for i := range xp.Calls {
				c := &xp.Calls[i]
				cr := &CallRec{C: c}
				h.Calls = append(h.Calls, cr)
				if c.Up >= len(ups) || ups[c.Up] == nil {
					continue
				}
				wg.Add(1)
				go func() {
					defer wg.Done()
					time.Sleep(us(c.AtUs))
					ctx, cancel := context.WithTimeout(context.Background(), us(c.DeadlineUs))
					defer cancel()
					cr.Limit = us(c.DeadlineUs)
					if c.CancelUs > 0 && c.CancelUs < c.DeadlineUs {
						cr.Limit = us(c.CancelUs)
						tm := time.AfterFunc(us(c.CancelUs), cancel)
						defer tm.Stop()
					}
					q := xQuery(c)
					cr.Start = s.Now()
					s.Logf("call", "%d up=%d tok=%s", c.Idx, c.Up, c.Token)
					m, err := ups[c.Up].ExchangeContext(ctx, q)
					cr.End = s.Now()
					cr.Done = true
					if err != nil {
						cr.Err = err.Error()
						if cr.Err == "" {
							cr.Err = "error"
						}
					}
					cr.Both = m != nil && err != nil
					if m != nil {
						rm, perr := dnsToRef(m)
						if perr != nil {
							cr.Err = "returned message does not re-encode: " + perr.Error()
						} else {
							cr.Msg = rm
							cr.Meta, cr.HasMeta = peers.DecodeMeta(rm)
						}
						dnsmsg.ReleaseMsg(m)
					}
					s.Logf("call_end", "%d err=%v msg=%v", c.Idx, err != nil, m != nil)
				}()
			}
			for _, ev := range xp.ServerEvents {
				if ev.Up >= len(h.Ups) {
					continue
				}
				srv := h.Ups[ev.Up]
				s.After(us(ev.AtUs), "server_event", func() {
					s.Logf("server_event", "%s %s", srv.Spec.Tag, ev.Kind)
					s.Fault("server_" + ev.Kind)
					switch ev.Kind {
					case "close_idle_conns":
						go srv.CloseIdleConns()
					case "reset_all":
						srv.ResetAll()
					case "crash_restart":
						go func() {
							srv.Stop()
							time.Sleep(300 * time.Millisecond)
							srv.Start()
						}()
					case "down":
						go func() {
							srv.Stop()
							time.Sleep(time.Duration(ev.DownMs) * time.Millisecond)
							srv.Start()
						}()
					}
				})
			}
			for _, cl := range xp.Closes {
				if cl.Up >= len(ups) || ups[cl.Up] == nil {
					continue
				}
				s.After(us(cl.AtUs), "close", func() {
					go func() {
						n := 1
						if cl.Twice {
							n = 2
						}
						for i := 0; i < n; i++ {
							hmu.Lock()
							h.CloseAt[cl.Up] = append(h.CloseAt[cl.Up], s.Now())
							hmu.Unlock()
							s.Logf("close_call", "up=%d", cl.Up)
							ups[cl.Up].Close()
							hmu.Lock()
							h.CloseRet[cl.Up] = append(h.CloseRet[cl.Up], s.Now())
							hmu.Unlock()
							s.Logf("close_ret", "up=%d", cl.Up)
							if i == 0 {
								// what the proxy still has open towards this server
								// 3 s after Close returned and still 2 s later was
								// left behind by Close (the 150 s grace at the end of
								// the run hides what an idle timer tidies up)
								host := xp.Upstreams[cl.Up].Host
								snap := func() map[string]bool {
									m := map[string]bool{}
									for _, d := range w.OpenEndpoints(vnet.OwnerProxy) {
										if strings.HasPrefix(d, "stream#") && strings.Contains(d, "->"+host+":") {
											m[d] = true
										}
									}
									return m
								}
								s.After(3*time.Second, "leak_probe", func() {
									a := snap()
									s.After(2*time.Second, "leak_probe2", func() {
										var left []string
										for d := range snap() {
											if a[d] {
												left = append(left, d)
											}
										}
										sort.Strings(left)
										hmu.Lock()
										h.LeftAfterClose = append(h.LeftAfterClose, left...)
										hmu.Unlock()
									})
								})
							}
							time.Sleep(time.Duration(s.IntN("closegap", uint64(cl.Up), 5000)) * time.Microsecond)
						}
					}()
				})
			}
			if xp.Exhaust > 0 {
				wg.Add(1)
				go func() { defer wg.Done(); runExhaust(h, ups[0], w) }()
			}
			// (a call that outlives the horizon must not stop the clock of the
			// closing phase below)
			var runOver atomic.Bool
			go func() {
				wg.Wait()
				s.Logf("calls_done", "")
				if !runOver.Load() {
					s.Stop()
				}
			}()
			s.Run(us(xp.HorizonUs))
			runOver.Store(true)
			if s.Exhausted {
				res.Exhausted = true
			}
			// end: close every upstream (also those closed already: idempotence)
			for i, u := range ups {
				if u == nil {
					continue
				}
				done := make(chan struct{})
				go func() { u.Close(); close(done) }()
				s.Settle(2 * time.Second)
				select {
				case <-done:
				default:
					s.Fail("C18", "close-hangs", "Close of upstream %s (%s) did not return within 2s of fake time", xp.Upstreams[i].Tag, xp.Upstreams[i].Kind)
				}
			}
			// every upstream is closed now: what the proxy still has open 3 s
			// later and still 2 s after that was left behind by a Close (the long
			// grace below hides what an idle timer tidies up)
			s.Settle(3 * time.Second)
			still := map[string]bool{}
			for _, d := range w.OpenEndpoints(vnet.OwnerProxy) {
				still[d] = true
			}
			s.Settle(2 * time.Second)
			{
				var left []string
				for _, d := range w.OpenEndpoints(vnet.OwnerProxy) {
					if still[d] {
						left = append(left, d)
					}
				}
				sort.Strings(left)
				hmu.Lock()
				for _, d := range left {
					dup := false
					for _, e := range h.LeftAfterClose {
						dup = dup || e == d
					}
					if !dup {
						h.LeftAfterClose = append(h.LeftAfterClose, d)
					}
				}
				hmu.Unlock()
			}
			s.Settle(150 * time.Second)
			h.Open = w.OpenEndpoints(vnet.OwnerProxy)
			for _, srv := range h.Ups {
				srv.Stop()
			}
			s.Settle(40 * time.Second)
			checkXport(h)
			res.Violations = s.Violations()
			res.Events = s.Events()
			res.SimNs = int64(s.Now())
			res.LogHash = fmt.Sprintf("%016x", s.LogHash())
			res.SigHash = fmt.Sprintf("%016x", s.SigHash())
			res.Faults = s.Faults()
			res.Probes = s.Probes()
			nret := 0
			for _, c := range h.Calls {
				if c.Msg != nil {
					nret++
				}
			}
			res.Stats["calls"] = int64(len(h.Calls))
			res.Stats["calls_with_reply"] = int64(nret)
			nf := int64(0)
			for k, v := range res.Faults {
				if k != "gc" {
					nf += v
				}
			}
			res.Nontrivial = nret > 0 && nf > 0
			if keepLog != 0 {
				res.Sample = s.LogLines()
			}
		})
	}()
	return res
}

// runExhaust drives more than 65536 sequential exchanges through one upstream.
func runExhaust(h *XHistory, u upstream.Upstream, w *vnet.World) {
	s := h.S
	n := h.XP.Exhaust
	fails := 0
	var slowWG sync.WaitGroup
	var slowMu sync.Mutex
	var slowRet []time.Duration
	// the last 300 exchanges before the id space runs out, and everything
	// after, are issued in concurrent waves, so that several callers meet the
	// connection at its end of life together
	seqN := 65536 - 300
	// every exchange carries a 3 s deadline (the late ones of the close
	// scenario 20 s, answered within 5 s): when none at all has returned for
	// 10 s while some are out, one of them has outlived its deadline - and the
	// waves below would wait for it for ever
	var returned, inflight atomic.Int64
	finished := make(chan struct{})
	go func() {
		last := int64(-1)
		for {
			select {
			case <-finished:
				return
			case <-time.After(10 * time.Second):
			}
			now := returned.Load()
			if out := inflight.Load(); now == last && out > 0 {
				s.Fail("C14", "exchange-outlives-deadline", "id-space run: %d exchanges are in flight and none has returned for 10 s, each has a deadline of 3 s (%d returned so far, the connection's id space ends at 65536)", out, now)
				return
			}
			last = now
		}
	}()
	track := func(f func()) {
		inflight.Add(1)
		f()
		inflight.Add(-1)
		returned.Add(1)
	}
	yieldPaused.Store(true)
	defer func() {
		defer close(finished)
		yieldPaused.Store(false)
		var wg sync.WaitGroup
		const wave = 24
		for i := seqN; i < n+300; i += wave {
			for k := 0; k < wave; k++ {
				idx := i + k
				if h.XP.ExhaustClose && idx >= 65536-6 && idx < 65536+2 {
					// answered seconds late: these hold the connection's last ids
					// (or the first of the next one) while the upstream is closed
					slowWG.Add(1)
					go func() {
						defer slowWG.Done()
						c := &plan.XCall{Idx: 1_000_000 + idx, Token: fmt.Sprintf("txslow%d", idx-(65536-6)), ID: uint16(idx * 7), Type: 1}
						ctx, cancel := context.WithTimeout(context.Background(), 20*time.Second)
						var m *dnsmsg.Msg
						track(func() { m, _ = u.ExchangeContext(ctx, xQuery(c)) })
						cancel()
						if m != nil {
							dnsmsg.ReleaseMsg(m)
						}
						slowMu.Lock()
						slowRet = append(slowRet, s.Now())
						slowMu.Unlock()
					}()
					continue
				}
				wg.Add(1)
				go func() {
					defer wg.Done()
					// per wave: callers start together (interleaved only at the
					// yield points), nearly together, or spread over a round trip
					if spread := []int{0, 0, 20, 300}[s.IntN("exw-spread", uint64(i), 4)]; spread > 0 {
						time.Sleep(time.Duration(s.IntN("exw", uint64(idx), spread)) * time.Microsecond)
					}
					c := &plan.XCall{Idx: 1_000_000 + idx, Token: fmt.Sprintf("tx%d", idx), ID: uint16(idx * 7), Type: 1}
					ctx, cancel := context.WithTimeout(context.Background(), 3*time.Second)
					var m *dnsmsg.Msg
					var err error
					track(func() { m, err = u.ExchangeContext(ctx, xQuery(c)) })
					cancel()
					if err != nil {
						// the server is healthy, answers within a round trip and a
						// fresh connection is one dial away: running out of ids on
						// the old connection is no reason for an exchange to fail
						s.Fail("C14", "failed-against-healthy-server", "exchange %s at the end of a connection's id space failed although the server is healthy and reachable: %v", c.Token, err)
						return
					}
					if rm, perr := dnsToRef(m); perr == nil {
						if meta, ok := peers.DecodeMeta(rm); ok && meta.Token != c.Token {
							s.Fail("C05", "foreign-reply-at-end-of-life", "exchange for %s on the exhausted connection returned the reply generated for %s", c.Token, meta.Token)
							s.Fail("C04", "foreign-answer", "exchange for %s returned the answer the upstream generated for %s (token of the records' metadata): data produced for a different query", c.Token, meta.Token)
						}
						if rm.ID != c.ID {
							s.Fail("C05", "caller-id", "exchange %s: returned id %d, caller id %d", c.Token, rm.ID, c.ID)
						}
					}
					dnsmsg.ReleaseMsg(m)
				}()
			}
			wg.Wait()
		}
		s.Probe("c05_exhaust_concurrent_tail")
		if h.XP.ExhaustClose {
			// the waves are through (a round trip each); the late answers are
			// seconds away: close the upstream now
			s.Logf("close_call", "up=0 (exhausted connection with exchanges in flight)")
			u.Close()
			tc := s.Now()
			s.Logf("close_ret", "up=0")
			slowWG.Wait()
			for _, t := range slowRet {
				if t > tc+time.Second+stallSlack(h.P) {
					s.Fail("C18", "inflight-outlives-close", "an exchange in flight on a connection that had used up its ids returned %v after Close of the upstream had returned (it has to fail promptly)", t-tc)
					break
				}
			}
			s.Probe("c18_exhaust_close_checked")
			if now := s.Now(); now < tc+2*time.Second {
				time.Sleep(tc + 2*time.Second - now)
			}
			if left := w.OpenEndpoints(vnet.OwnerProxy); len(left) > 0 && s.Now() < tc+3*time.Second {
				sort.Strings(left)
				s.Fail("C18", "connection-left-open-by-close", "2 s after Close of the (only) upstream returned the proxy still had open: %s", strings.Join(left, "; "))
			}
		}
	}()
	n = seqN
	for i := 0; i < n; i++ {
		c := &plan.XCall{Idx: 1_000_000 + i, Token: "tx", ID: uint16(i * 7), Type: 1}
		ctx, cancel := context.WithTimeout(context.Background(), 3*time.Second)
		var m *dnsmsg.Msg
		var err error
		track(func() { m, err = u.ExchangeContext(ctx, xQuery(c)) })
		cancel()
		if err != nil {
			fails++
			if fails > 5 {
				s.Fail("C05", "exhaust-exchange-failed", "sequential exchange #%d failed: %v", i, err)
				return
			}
			continue
		}
		if m.Header.ID != c.ID {
			s.Fail("C05", "caller-id", "exchange #%d: returned id %d, caller id %d", i, m.Header.ID, c.ID)
		}
		dnsmsg.ReleaseMsg(m)
	}
	s.Probe("c05_exhaust_completed")
}

// ---- oracles ----

func checkXport(h *XHistory) {
	// "returns - with a reply or an error": a call that hands back both has
	// not told its caller the outcome (callers test the error first).
	for _, c := range h.Calls {
		if c.Both && c.C.Up < len(h.XP.Upstreams) {
			prop := "C14"
			if h.XP.Upstreams[c.C.Up].Kind == "udp" {
				prop = "C16" // the TCP leg of a truncated UDP reply is the only retry path there
			}
			h.S.Fail(prop, "reply-and-error", "call %d (upstream %s, token %s) returned a message together with an error: %s", c.C.Idx, h.XP.Upstreams[c.C.Up].Tag, c.C.Token, c.Err)
		}
	}
	checkC05(h)
	checkC06(h)
	checkC14(h)
	checkC16(h)
	checkC18x(h)
	for i, err := range h.NewErr {
		if err != nil {
			h.S.Fail(h.P.Focus, "newupstream-failed", "NewUpstream(%q) failed: %v", h.XP.Upstreams[i].Addr, err)
		}
	}
}

func multiplexed(kind string) bool {
	return kind == "udp" || kind == "tcp+pipeline" || kind == "tls+pipeline"
}

func checkC05(h *XHistory) {
	s := h.S
	// wire ids never reused on a connection
	for _, u := range h.Ups {
		if !multiplexed(u.Spec.Kind) {
			continue
		}
		seen := map[string]time.Duration{}
		for _, q := range u.Queries {
			if !q.Decoded || q.Proto == "tcp" && u.Spec.Kind == "udp" {
				continue
			}
			k := fmt.Sprintf("%s/%d/%d", q.Proto, q.Conn, q.WireID)
			if t0, dup := seen[k]; dup {
				// a network-duplicated datagram is the same query twice, not a reuse
				if h.XP.Net.UpDup > 0 && q.Proto == "udp" {
					continue
				}
				s.Fail("C05", "wire-id-reused", "upstream %s: wire id %d used twice on connection %d (%s) at %v and %v", u.Spec.Tag, q.WireID, q.Conn, q.Proto, t0, q.At)
			}
			seen[k] = q.At
			s.Probe("c05_wireid_checked")
		}
		if h.XP.Exhaust > 0 {
			// ids 0..65535 once each, then a fresh connection
			perConn := map[int]map[uint16]bool{}
			var order []int
			for _, q := range u.Queries {
				if perConn[q.Conn] == nil {
					perConn[q.Conn] = map[uint16]bool{}
					order = append(order, q.Conn)
				}
				perConn[q.Conn][q.WireID] = true
			}
			if len(order) > 0 && len(perConn[order[0]]) == 65536 && len(order) > 1 {
				s.Probe("c05_exhaust_rollover_seen")
			}
		}
	}
	used := map[string]int{}
	for _, c := range h.Calls {
		if c.Msg == nil || c.C.Up >= len(h.Ups) {
			continue
		}
		u := h.Ups[c.C.Up]
		if !multiplexed(u.Spec.Kind) {
			continue
		}
		name := fmt.Sprintf("call %d (upstream %s %s, token %s)", c.C.Idx, u.Spec.Tag, u.Spec.Kind, c.C.Token)
		s.Probe("c05_reply_checked")
		if c.Msg.ID != c.C.ID {
			s.Fail("C05", "caller-id", "%s: returned id %d, caller id %d", name, c.Msg.ID, c.C.ID)
		}
		if !c.HasMeta {
			continue
		}
		// the reply instance must have been sent on the exchange's own (connection, wire id)
		ok := false
		for _, q := range u.Queries {
			if q.Token != c.C.Token {
				continue
			}
			for _, r := range u.Replies {
				if r.Token == c.Meta.Token && r.Serial == c.Meta.Serial && r.Conn == q.Conn && r.SentID == q.WireID && protoOfReply(u, r) == q.Proto {
					ok = true
				}
			}
		}
		if u.Spec.Kind == "udp" {
			// the query itself may have been lost on the way: use what the proxy sent
			for _, sq := range h.UDPSent {
				if sq.Token != c.C.Token {
					continue
				}
				for _, r := range u.Replies {
					if r.Token == c.Meta.Token && r.Serial == c.Meta.Serial && r.Conn == sq.Conn && r.SentID == sq.WireID && protoOfReply(u, r) == "udp" {
						ok = true
					}
				}
			}
		}
		if !ok && u.Spec.Kind != "udp" {
			// the call's own query never reached the server (it returned first),
			// so its wire id is unknown here; a reply that the server itself
			// sent under a foreign id may legitimately have met that id
			seen := false
			for _, q := range u.Queries {
				if q.Token == c.C.Token {
					seen = true
				}
			}
			for _, r := range u.Replies {
				if !seen && r.Token == c.Meta.Token && r.Serial == c.Meta.Serial && r.Kind == "wrong_id" {
					ok = true
				}
			}
		}
		if !ok {
			s.Fail("C05", "misrouted-reply", "%s returned the reply generated for token %s serial %d, which the server never sent with this exchange's connection and wire id", name, c.Meta.Token, c.Meta.Serial)
		}
		if c.Meta.Token != c.C.Token {
			s.Probe("c05_foreign_reply_with_own_wire_id")
		}
		k := fmt.Sprintf("%s/%s/%d", u.Spec.Tag, c.Meta.Token, c.Meta.Serial)
		used[k]++
		if used[k] > 1 {
			s.Fail("C05", "reply-satisfied-two-exchanges", "%s: reply token %s serial %d was already returned to another exchange", name, c.Meta.Token, c.Meta.Serial)
		}
	}
}

func protoOfReply(u *peers.UpServer, r peers.UpReply) string {
	for _, q := range u.Queries {
		if q.Conn == r.Conn && q.WireID == r.WireID && q.Token == r.Token && q.At == r.QueryAt {
			return q.Proto
		}
	}
	return ""
}

func checkC06(h *XHistory) {
	s := h.S
	for _, u := range h.Ups {
		oneAtATime := u.Spec.Kind == "tcp" || u.Spec.Kind == "tls" || u.Spec.Kind == "udp"
		if !oneAtATime {
			continue
		}
		for _, q := range u.Queries {
			if !q.Decoded || q.Proto == "udp" {
				continue
			}
			s.Probe("c06_query_checked")
			if q.OutstandingBefore > 0 {
				s.Fail("C06", "two-outstanding", "upstream %s (%s): query for token %s arrived on connection %d while %d earlier queries on it were still unanswered", u.Spec.Tag, u.Spec.Kind, q.Token, q.Conn, q.OutstandingBefore)
			}
		}
	}
	for _, c := range h.Calls {
		if c.Msg == nil || c.C.Up >= len(h.Ups) {
			continue
		}
		u := h.Ups[c.C.Up]
		if multiplexed(u.Spec.Kind) && u.Spec.Kind != "udp" || u.Spec.Kind == "https" || u.Spec.Kind == "http" {
			continue
		}
		if u.Spec.Kind == "udp" {
			// only the TCP leg is one-at-a-time; UDP replies are C05's
			viaTCP := false
			for _, r := range u.Replies {
				if c.HasMeta && r.Token == c.Meta.Token && r.Serial == c.Meta.Serial && protoOfReply(u, r) == "tcp" {
					viaTCP = true
				}
			}
			if !viaTCP {
				continue
			}
		}
		name := fmt.Sprintf("call %d (upstream %s %s, token %s)", c.C.Idx, u.Spec.Tag, u.Spec.Kind, c.C.Token)
		s.Probe("c06_reply_checked")
		if c.Msg.ID != c.C.ID {
			s.Fail("C06", "caller-id", "%s: returned id %d, caller id %d", name, c.Msg.ID, c.C.ID)
		}
		if c.HasMeta && c.Meta.Token != c.C.Token {
			s.Fail("C06", "foreign-reply", "%s returned the reply to token %s (serial %d): a connection was reused before its previous reply had been consumed", name, c.Meta.Token, c.Meta.Serial)
		}
	}
}

// onlyGracefulEvents: every server event of the run is a close of idle
// connections, which a QUIC peer is told about at once.
func onlyGracefulEvents(h *XHistory) bool {
	for _, e := range h.XP.ServerEvents {
		if e.Kind != "close_idle_conns" {
			return false
		}
	}
	return true
}

func eventIn(h *XHistory, up int, from, to time.Duration) bool {
	// a QUIC peer that crashed silently is only noticed when the connection's
	// idle time-out (30 s) expires; nothing promises an earlier recovery
	before := time.Second
	if k := h.XP.Upstreams[up].Kind; k == "quic" || k == "h3" {
		before = 35 * time.Second
	}
	for _, e := range h.Events {
		b := before
		if e.Kind == "close_idle_conns" {
			b = time.Second // a graceful close is known to the peer at once, also over QUIC
		}
		// (a "down" event lasts: the server is back DownMs later)
		if e.Up == up && us(e.AtUs)+time.Duration(e.DownMs)*time.Millisecond >= from-b && us(e.AtUs) <= to+time.Second {
			return true
		}
	}
	for _, p := range h.XP.Net.Partitions {
		if p.Host == h.XP.Upstreams[up].Host && us(p.FromUs) <= to && us(p.ToUs)+time.Second >= from {
			return true
		}
	}
	return false
}

func checkC14(h *XHistory) {
	s := h.S
	sigma := time.Duration(0)
	if h.P.Knobs.YieldDensity > 0 && h.P.Knobs.StallProb > 0 {
		sigma = 4 * time.Duration(max(1000, h.P.Knobs.StallMaxUs)) * time.Microsecond
	}
	closedAny := len(h.XP.Closes) > 0
	allReply := true
	for _, t := range h.XP.Tokens {
		if !allActs(t, replyAct) {
			allReply = false
		}
	}
	faulty := h.XP.Net.UpDrop > 0 || len(h.XP.Net.Connect) > 0 || h.XP.Net.UpCorrupt > 0
	for _, c := range h.Calls {
		if c.C.Up >= len(h.Ups) || h.NewErr[c.C.Up] != nil {
			continue
		}
		u := h.Ups[c.C.Up]
		name := fmt.Sprintf("call %d (upstream %s %s, token %s, limit %v)", c.C.Idx, u.Spec.Tag, u.Spec.Kind, c.C.Token, c.Limit)
		if !c.Done {
			s.Fail("C14", "never-returned", "%s started at %v never returned", name, c.Start)
			continue
		}
		s.Probe("c14_deadline_checked")
		if d := c.End - c.Start; d > c.Limit+time.Second+sigma {
			s.Fail("C14", "overran-deadline", "%s returned after %v", name, d)
		}
		if c.Err == "" && c.Msg == nil {
			s.Fail("C14", "nil-nil", "%s returned neither a message nor an error", name)
		}
		// liveness: healthy server, no fault near the call, generous deadline
		t := h.XP.Tokens[c.C.Token]
		delay := time.Duration(0)
		if t != nil && len(t.Acts) > 0 {
			delay = us(t.Acts[0].DelayUs)
		}
		idle := 10 * time.Second
		if h.XP.IdleMs > 0 {
			idle = time.Duration(h.XP.IdleMs) * time.Millisecond
		}
		// a reply slower than the connection's idle time-out legitimately fails
		// the exchange (the idle deadline is not extended by writes)
		slowForIdle := u.Spec.Kind != "udp" && delay+4*us(h.XP.Net.UpLatUs[1])+sigma >= idle
		// one-at-a-time and DoH exchanges have a fixed 6 s I/O limit of their own
		if delay+4*us(h.XP.Net.UpLatUs[1])+sigma >= 5500*time.Millisecond {
			slowForIdle = true
		}
		healthy := allReply && !faulty && !closedAny && !slowForIdle && !eventIn(h, c.C.Up, c.Start, c.End) && c.Limit >= delay+2*time.Second+sigma && c.C.CancelUs == 0
		if (u.Spec.Kind == "tcp+pipeline" || u.Spec.Kind == "tls+pipeline") && c.Limit < 2*delay+2*time.Second+sigma {
			// a pooled pipelined connection's idle read deadline runs from its
			// last read and is not extended by a write: the first attempt may be
			// cut off after anything up to the reply's delay (had more of the
			// idle time been left, it would have succeeded) before the retry on a
			// new connection starts from zero
			healthy = false
		}
		if h.XP.Net.UpDup > 0 && u.Spec.Kind == "udp" {
			healthy = healthy && true
		}
		if u.Spec.Kind == "quic" {
			// DoQ: every exchange has a stream of its own, so other exchanges
			// that the server never answers take nothing away from this one -
			// as long as fewer exchanges are open together than the server
			// allows streams (an exchange that has returned has given its stream
			// back)
			others := true
			for tok, t2 := range h.XP.Tokens {
				if tok != c.C.Token && !allActs(t2, func(k string) bool { return replyAct(k) || k == "silent" }) {
					others = false
				}
			}
			lim := u.Spec.QuicMaxStreams
			if lim == 0 {
				lim = 100
			}
			open := 0
			for _, o := range h.Calls {
				if o.C.Up == c.C.Up && o.Done && o.Start <= c.End && o.End+time.Second >= c.Start {
					open++
				}
			}
			healthy = (healthy || others && allActs(t, replyAct)) && open < lim && !faulty && !closedAny && !slowForIdle && !eventIn(h, c.C.Up, c.Start, c.End) && c.Limit >= delay+2*time.Second+sigma && c.C.CancelUs == 0 && h.XP.IdleMs == 0 && onlyGracefulEvents(h)
		}
		if healthy {
			s.Probe("c14_liveness_checked")
			if c.Msg == nil {
				s.Fail("C14", "failed-against-healthy-server", "%s failed although the server was healthy and reachable: %s", name, c.Err)
			}
		}
	}
	// a udp server that is gone answers with "port unreachable": the socket is
	// dead for the transport, and an exchange on it fails (or is retried, and
	// refused again) at once instead of waiting out its deadline
	if h.XP.Net.ICMP && !faulty && len(h.XP.Net.Partitions) == 0 {
		for _, ev := range h.XP.ServerEvents {
			if ev.Kind != "down" || ev.Up >= len(h.Ups) || h.Ups[ev.Up].Spec.Kind != "udp" {
				continue
			}
			from, to := us(ev.AtUs)+10*time.Millisecond, us(ev.AtUs)+time.Duration(ev.DownMs)*time.Millisecond
			// (another event in between may bring the server back early)
			overlap := false
			for _, o := range h.XP.ServerEvents {
				if o != ev && o.Up == ev.Up && us(o.AtUs) >= from-2*time.Second && us(o.AtUs) <= to+time.Second {
					overlap = true
				}
			}
			if overlap {
				continue
			}
			for _, c := range h.Calls {
				if c.C.Up != ev.Up || !c.Done || c.C.CancelUs != 0 || c.Limit < 3*time.Second {
					continue
				}
				if c.Start < from || c.Start+2*time.Second > to {
					continue
				}
				s.Probe("c14_refused_checked")
				if c.End > c.Start+time.Second+8*us(h.XP.Net.UpLatUs[1])+sigma {
					s.Fail("C14", "refused-waited-out-deadline", "call %d (token %s, limit %v) to udp upstream %s, whose port answered \"unreachable\" from %v to %v, returned only after %v: %s", c.C.Idx, c.C.Token, c.Limit, h.Ups[ev.Up].Spec.Tag, from, to, c.End-c.Start, c.Err)
				}
			}
		}
	}
	// bounded dialling
	nd := map[string]int{}
	for _, d := range h.Dials {
		nd[d.Resolved]++
	}
	for _, u := range h.XP.Upstreams {
		n := 0
		for _, c := range h.XP.Calls {
			if c.Up < len(h.XP.Upstreams) && h.XP.Upstreams[c.Up].Tag == u.Tag {
				n++
			}
		}
		if h.XP.Exhaust > 0 {
			n = h.XP.Exhaust
		}
		key := fmt.Sprintf("%s:%d", u.Host, u.Port)
		if strings.Contains(u.Host, ":") {
			key = fmt.Sprintf("[%s]:%d", u.Host, u.Port)
		}
		if nd[key] > 8*n+8 {
			s.Fail("C14", "unbounded-dials", "upstream %s: %d dials for %d exchanges", u.Tag, nd[key], n)
		}
	}
	// when a multiplexed connection is reset, waiters leave it promptly
	for _, e := range h.Events {
		if e.Kind != "reset_all" || e.Up >= len(h.Ups) {
			continue
		}
		u := h.Ups[e.Up]
		if u.Spec.Kind != "tcp+pipeline" && u.Spec.Kind != "tls+pipeline" {
			continue
		}
		te := us(e.AtUs)
		for _, c := range h.Calls {
			if c.C.Up != e.Up || !c.Done || c.Start == 0 {
				continue
			}
			// was its query on a connection at the server before the reset, unanswered?
			waiting := false
			for _, q := range u.Queries {
				if g, gone := u.ConnGone[q.Conn]; gone && g < te {
					continue // that connection had died earlier
				}
				if g, ok := u.ConnAbandoned[q.Conn]; ok && g <= te {
					// the proxy itself had closed its end before the server's reset
					// (it reads garbage, say): the waiter had left already and is
					// busy retrying - a dial that the network may keep waiting
					continue
				}
				if q.Token == c.C.Token && q.At < te {
					answered := false
					for _, r := range u.Replies {
						if r.Token == q.Token && r.Conn == q.Conn && r.WireID == q.WireID && r.At < te && r.Kind != "silent" {
							answered = true
						}
					}
					if !answered {
						waiting = true
					}
				}
			}
			if !waiting || c.End < te {
				continue
			}
			// the connection had answered somebody before this call started (for
			// this call it came out of the pool), the server stays up and
			// answers everything: the retry on another connection succeeds
			reused := false
			for _, q := range u.Queries {
				if q.Token != c.C.Token || q.At >= te {
					continue
				}
				for _, r := range u.Replies {
					if r.Conn == q.Conn && r.Token != q.Token && r.Kind == "reply" && r.At+us(h.XP.Net.UpLatUs[1]) < c.Start {
						reused = true
					}
				}
			}
			others := 0
			for _, e2 := range h.Events {
				if e2.Up == e.Up {
					others++
				}
			}
			delay := time.Duration(0)
			if t := h.XP.Tokens[c.C.Token]; t != nil && len(t.Acts) > 0 {
				delay = us(t.Acts[0].DelayUs)
			}
			if reused && allReply && !faulty && !closedAny && others == 1 && h.XP.IdleMs == 0 && c.C.CancelUs == 0 && len(h.XP.Net.Partitions) == 0 && h.XP.Net.UpDup == 0 && c.Start+c.Limit > te+delay+2*time.Second+sigma {
				s.Probe("c14_waiter_on_reused_conn_checked")
				if c.Msg == nil {
					s.Fail("C14", "failed-against-healthy-server", "call %d (token %s) was waiting on a pooled connection of upstream %s (it had answered before) when the server reset it at %v and kept listening; the retry on another connection must succeed, the call failed at %v: %s", c.C.Idx, c.C.Token, u.Spec.Tag, te, c.End, c.Err)
				}
			}
			s.Probe("c14_waiter_on_dead_conn")
			left := c.End <= te+time.Second+us(h.XP.Net.UpLatUs[1])+sigma
			for _, q := range u.Queries {
				if q.Token == c.C.Token && q.At > te && q.At <= te+time.Second+2*us(h.XP.Net.UpLatUs[1])+sigma {
					left = true // retried on another connection
				}
			}
			// a retry may also show as a new dial (the query itself may not get through)
			for _, d := range h.Dials {
				if d.At > te && d.At <= te+time.Second+2*us(h.XP.Net.UpLatUs[1])+sigma && strings.HasPrefix(d.Resolved, u.Spec.Host) {
					left = true
				}
			}
			if !left {
				s.Fail("C14", "stuck-on-dead-connection", "call %d (token %s) was waiting on a connection of upstream %s that was reset at %v; it neither returned nor retried within 1s (returned at %v)", c.C.Idx, c.C.Token, u.Spec.Tag, te, c.End)
			}
		}
	}
}

func checkC16(h *XHistory) {
	s := h.S
	for _, c := range h.Calls {
		if c.C.Up >= len(h.Ups) || !c.Done {
			continue
		}
		u := h.Ups[c.C.Up]
		if u.Spec.Kind != "udp" || h.XP.Net.UpDup > 0 || h.XP.Net.UpDrop > 0 || len(h.XP.Closes) > 0 {
			continue
		}
		// whatever path it took: a returned message is an answer to this call
		wrongIDs := false // a server that answers with other exchanges' ids is C05's subject
		for _, t := range h.XP.Tokens {
			for _, a := range t.Acts {
				if a.Kind == "wrong_id" {
					wrongIDs = true
				}
			}
		}
		if c.Msg != nil && c.HasMeta && c.Meta.Token != c.C.Token && !wrongIDs {
			s.Fail("C16", "foreign-outcome", "call %d (token %s): the caller received the reply generated for token %s (serial %d, sent over %s)", c.C.Idx, c.C.Token, c.Meta.Token, c.Meta.Serial, protoOfSerial(u, c.Meta))
			continue
		}
		if wrongIDs {
			// the call may have been ended by another exchange's reply that the
			// server sent under this call's wire id, before its own (truncated)
			// reply arrived: what it "should" have got then says nothing
			continue
		}
		var udpReplies, tcpQueries, tcpReplies []int
		var udpTC bool
		for i, r := range u.Replies {
			if r.Token != c.C.Token {
				continue
			}
			switch protoOfReply(u, r) {
			case "udp":
				if r.Kind == "tc" {
					udpTC = true
				}
				if r.Kind == "tc" || r.Kind == "reply" {
					udpReplies = append(udpReplies, i)
				}
			case "tcp":
				if r.Kind == "reply" {
					tcpReplies = append(tcpReplies, i)
				}
			}
		}
		for i, q := range u.Queries {
			if q.Token == c.C.Token && q.Proto == "tcp" {
				tcpQueries = append(tcpQueries, i)
			}
		}
		name := fmt.Sprintf("call %d (token %s)", c.C.Idx, c.C.Token)
		if len(udpReplies) == 0 {
			continue
		}
		// did the UDP reply reach the proxy before the caller gave up?
		first := u.Replies[udpReplies[0]]
		inTime := first.At+us(h.XP.Net.UpLatUs[1])+50*time.Millisecond < c.Start+c.Limit
		if udpTC {
			s.Probe("c16_tc_seen")
			if c.Msg != nil && c.Msg.Has(refdns.BitTC) && c.HasMeta && protoOfSerial(u, c.Meta) == "udp" {
				s.Fail("C16", "truncated-udp-returned", "%s: the caller received the truncated UDP message", name)
			}
			// (timing-based: only with a generous limit, so that injected stalls cannot eat it)
			if inTime && len(tcpQueries) == 0 && c.Limit >= 2*time.Second && c.C.CancelUs == 0 && !eventIn(h, c.C.Up, c.Start, c.End) && first.At+time.Second < c.Start+c.Limit {
				s.Fail("C16", "no-tcp-retry", "%s: UDP reply had TC but the TCP server never saw the question", name)
			}
			if c.Msg != nil && c.HasMeta {
				if protoOfSerial(u, c.Meta) != "tcp" {
					s.Fail("C16", "not-tcp-outcome", "%s: UDP reply had TC; the caller got serial %d which was not sent over TCP", name, c.Meta.Serial)
				} else {
					s.Probe("c16_tcp_outcome_returned")
				}
			}
			// the TCP server answered properly, in good time and on a connection
			// nothing happened to: that answer is the outcome the caller gets
			if c.Msg == nil && len(tcpReplies) > 0 && inTime && c.C.CancelUs == 0 && !eventIn(h, c.C.Up, c.Start, c.End) && h.XP.Net.UpCorrupt == 0 && len(h.XP.Net.Partitions) == 0 {
				tr := u.Replies[tcpReplies[0]]
				_, gone := u.ConnGone[tr.Conn]
				_, abandoned := u.ConnAbandoned[tr.Conn]
				margin := 300*time.Millisecond + 20*us(h.XP.Net.UpLatUs[1]) + stallSlack(h.P)
				if tr.At-tr.QueryAt < 3*time.Second && tr.At+margin < c.Start+c.Limit && !(gone && u.ConnGone[tr.Conn] <= tr.At) && !(abandoned && u.ConnAbandoned[tr.Conn] <= tr.At) {
					s.Probe("c16_tcp_reply_in_time")
					s.Fail("C16", "tcp-outcome-lost", "%s: UDP reply had TC, the TCP server answered properly with %d bytes at %v (the caller's limit ran until %v) and the caller got an error instead: %s", name, tr.Bytes, tr.At, c.Start+c.Limit, c.Err)
				}
			}
			// every TCP answer in these runs has records, the one with the
			// metadata among them: a message without it is not what the TCP
			// server sent (nor anything else it sent whole)
			if c.Msg != nil && !c.HasMeta && len(tcpReplies) > 0 && len(c.Msg.An)+len(c.Msg.Ns)+len(c.Msg.Ar) == 0 && h.XP.Net.UpCorrupt == 0 {
				if t := h.XP.Tokens[c.C.Token]; t != nil && t.Ans.NAn > 0 && t.Ans2 == nil {
					s.Fail("C16", "tcp-outcome-altered", "%s: UDP reply had TC; the caller got a message without any record (TC=%v) although the TCP server's answer (%d bytes) has %d answer records", name, c.Msg.Has(refdns.BitTC), u.Replies[tcpReplies[0]].Bytes, t.Ans.NAn)
				}
			}
			if c.Msg != nil && len(tcpReplies) == 0 {
				s.Fail("C16", "message-without-tcp-reply", "%s: UDP reply had TC and TCP never answered, yet a message was returned", name)
			}
		} else {
			s.Probe("c16_no_tc")
			if len(tcpQueries) > 0 {
				s.Fail("C16", "needless-tcp", "%s: UDP reply had no TC but the TCP server saw the question", name)
			}
			if c.Msg != nil && c.HasMeta && protoOfSerial(u, c.Meta) != "udp" {
				s.Fail("C16", "not-udp-reply", "%s: no TC, but the returned serial %d was not the UDP reply", name, c.Meta.Serial)
			}
			// a malformed datagram (an empty one in particular) makes the
			// transport drop the socket; a reply that reaches the dropped
			// socket afterwards was not received at all
			disturbed := false
			for _, r := range u.Replies {
				if r.Conn == first.Conn && r.Kind == "garbage" && r.At+us(h.XP.Net.UpLatUs[1]) >= c.Start && r.At <= first.At+us(h.XP.Net.UpLatUs[1]) {
					disturbed = true
				}
			}
			if vnet.W != nil {
				// (the socket the reply was sent to had been dropped before it arrived)
				if g, ok := vnet.W.ProxyUDPClosedAt(first.Conn); ok && g <= first.At+us(h.XP.Net.UpLatUs[1]) {
					disturbed = true
				}
			}
			if c.Msg == nil && inTime && !disturbed && c.C.CancelUs == 0 && !eventIn(h, c.C.Up, c.Start, c.End) && h.P.Knobs.StallProb == 0 {
				s.Fail("C16", "udp-reply-lost", "%s: the UDP reply (no TC) arrived in time but the call failed: %s", name, c.Err)
			}
		}
	}
}

func protoOfSerial(u *peers.UpServer, m peers.Meta) string {
	for _, r := range u.Replies {
		if r.Token == m.Token && r.Serial == m.Serial && r.Serial != 0 {
			return protoOfReply(u, r)
		}
	}
	return ""
}

func checkC18x(h *XHistory) {
	s := h.S
	sigma := time.Duration(0)
	if h.P.Knobs.YieldDensity > 0 && h.P.Knobs.StallProb > 0 {
		sigma = 4 * time.Duration(max(1000, h.P.Knobs.StallMaxUs)) * time.Microsecond
	}
	if len(h.Open) > 0 {
		s.Fail("C18", "leak-after-close", "after Close and a 150 s grace period the proxy still owns: %s", strings.Join(h.Open, "; "))
	}
	if len(h.LeftAfterClose) > 0 {
		s.Fail("C18", "connection-left-open-by-close", "3 s after Close of the upstream returned, and still 2 s later, the proxy had these connections to its server open: %s", strings.Join(h.LeftAfterClose, "; "))
	}
	s.Probe("c18_upstream_close_checked")
	for up, ats := range h.CloseAt {
		rets := h.CloseRet[up]
		if len(rets) < len(ats) {
			s.Fail("C18", "close-hangs", "Close of upstream %s called %d times, returned %d times", h.XP.Upstreams[up].Tag, len(ats), len(rets))
			continue
		}
		for i := range ats {
			if rets[i]-ats[i] > time.Second {
				s.Fail("C18", "close-slow", "Close of upstream %s took %v", h.XP.Upstreams[up].Tag, rets[i]-ats[i])
			}
		}
		sort.Slice(ats, func(i, j int) bool { return ats[i] < ats[j] })
		closed := rets[0]
		for _, c := range h.Calls {
			if c.C.Up != up {
				continue
			}
			if !c.Done {
				s.Fail("C18", "exchange-hangs-after-close", "call %d never returned (upstream closed at %v)", c.C.Idx, closed)
				continue
			}
			if c.Start > closed+time.Millisecond {
				s.Probe("c18_call_after_close")
				if c.Msg != nil {
					s.Fail("C18", "exchange-after-close-succeeded", "call %d started %v after Close returned and got a reply", c.C.Idx, c.Start-closed)
				}
				if c.End-c.Start > time.Second {
					s.Fail("C18", "exchange-after-close-slow", "call %d started after Close and took %v to fail", c.C.Idx, c.End-c.Start)
				}
			} else if c.End > closed {
				s.Probe("c18_call_inflight_at_close")
				// in flight when Close returned: it has to fail (or finish) now,
				// not when its own deadline or some I/O timeout comes round.
				// Nothing a closed upstream still has to do needs a round trip;
				// one second of simulated time is the slack for injected stalls.
				if c.End > closed+time.Second+sigma && c.Start+c.Limit > closed+2*time.Second {
					s.Fail("C18", "inflight-outlives-close", "call %d (upstream %s, %s) was in flight when Close returned at %v and only returned %v later (%s)", c.C.Idx, h.XP.Upstreams[up].Tag, h.XP.Upstreams[up].Kind, closed, c.End-closed, c.Err)
				}
			}
		}
	}
}

var _ = errors.New
var _ = tls.VersionTLS13
