package scen

func checkCache(h *History, vs []*opView)   {}
func checkC15e2e(h *History, vs []*opView)  {}
func checkC17mtls(h *History, vs []*opView) {}
