package scen

import (
	"fmt"
	"net/netip"
	"sync"
	"sync/atomic"
	"testing"
	"testing/synctest"
	"time"

	"github.com/IrineSistiana/mosproxy/internal/limiter"
	"github.com/IrineSistiana/mosproxy/verifsim/plan"
	"github.com/IrineSistiana/mosproxy/verifsim/sim"
	"github.com/IrineSistiana/mosproxy/verifsim/vsync"
)

// refBucket is a textbook token bucket.
type refBucket struct {
	tokens float64
	last   time.Duration
}

// subnetOf is the client subnet as the statement of C15 defines it.
func subnetOf(spec plan.LimiterSpec, a netip.Addr) netip.Prefix {
	a = a.Unmap()
	if a.Is4() {
		m := spec.V4Mask
		if m <= 0 || m > 32 {
			m = 24
		}
		p, _ := a.Prefix(m)
		return p
	}
	m := spec.V6Mask
	if m <= 0 || m > 128 {
		m = 48
	}
	p, _ := a.Prefix(m)
	return p
}

// RunLimiter drives the exported ClientLimiter under the fake clock against
// a reference token bucket per subnet.
func RunLimiter(t *testing.T, p *plan.Plan, keepLog int) *Result {
	lp := p.Limiter
	res := &Result{Seed: p.Seed, Family: p.Family, Focus: p.Focus, Arm: p.Arm, Stats: map[string]int64{}}
	synctest.Test(t, func(t *testing.T) {
		s := sim.New(p.Seed, keepLog)
		rate := float64(lp.Spec.Limit)
		if rate <= 0 {
			rate = 20
		}
		burst := lp.Spec.Burst
		if burst <= 0 {
			burst = int(rate)
		}
		cl := limiter.NewClientLimiter(limiter.ClientLimiterOpts{Limit: float64(lp.Spec.Limit), Burst: lp.Spec.Burst, V4Mask: lp.Spec.V4Mask, V6Mask: lp.Spec.V6Mask})
		defer cl.Close()
		ref := map[netip.Prefix]*refBucket{}
		type adm struct {
			at time.Duration
			n  int
		}
		admitted := map[netip.Prefix][]adm{}
		checked, near := 0, 0
		for i, ev := range lp.Events {
			d := us(ev.AtUs) - s.Now()
			if d > 0 {
				time.Sleep(d)
			}
			now := s.Now()
			addr := netip.MustParseAddr(ev.Addr)
			sn := subnetOf(lp.Spec, addr)
			b := ref[sn]
			if b == nil {
				b = &refBucket{tokens: float64(burst), last: now}
				ref[sn] = b
			}
			b.tokens += rate * (now - b.last).Seconds()
			if b.tokens > float64(burst) {
				b.tokens = float64(burst)
			}
			b.last = now
			want := b.tokens >= float64(ev.N)
			got := cl.AllowN(addr, time.Now(), ev.N)
			s.Logf("lim", "%d %s n=%d got=%v want=%v tokens=%.4f", i, sn, ev.N, got, want, b.tokens)
			margin := b.tokens - float64(ev.N)
			if margin > -1e-6 && margin < 1e-6 {
				near++
				want = got
			}
			if got {
				admitted[sn] = append(admitted[sn], adm{now, ev.N})
			}
			if want {
				b.tokens -= float64(ev.N)
			}
			checked++
			if got != want {
				if got {
					s.Fail("C15", "over-admitted", "event %d: %s (subnet %s) cost %d admitted at %v although the reference bucket (rate %.0f burst %d) holds %.3f tokens", i, ev.Addr, sn, ev.N, now, rate, burst, b.tokens)
				} else {
					s.Fail("C15", "refused-within-budget", "event %d: %s (subnet %s) cost %d refused at %v although its own subnet's bucket (rate %.0f burst %d) holds %.3f tokens", i, ev.Addr, sn, ev.N, now, rate, burst, b.tokens)
				}
				// resynchronise the reference so that one divergence is reported once
				if got {
					b.tokens -= float64(ev.N)
				} else {
					b.tokens += float64(ev.N)
				}
				break
			}
		}
		// concurrent evaluations for one subnet in the same instant: together
		// they cannot be admitted more than the subnet's bucket holds
		if len(lp.Bursts) > 0 {
			var yn uint64
			vsync.HookY = func(pc uintptr) {
				n := atomic.AddUint64(&yn, 1)
				if s.Coin("limy", n, p.Knobs.YieldDensity) {
					s.Fault("yield")
					time.Sleep(s.Dur("limyd", n, 50, 20_000))
				}
			}
			defer func() { vsync.HookY = nil }()
		}
		for bi, bu := range lp.Bursts {
			if d := us(bu.AtUs) - s.Now(); d > 0 {
				time.Sleep(d)
			}
			now := s.Now()
			addr := netip.MustParseAddr(bu.Addr)
			sn := subnetOf(lp.Spec, addr)
			b := ref[sn]
			if b == nil {
				b = &refBucket{tokens: float64(burst), last: now}
				ref[sn] = b
			}
			b.tokens = min(float64(burst), b.tokens+rate*(now-b.last).Seconds())
			b.last = now
			var wg sync.WaitGroup
			var got atomic.Int64
			for k := 0; k < bu.K; k++ {
				wg.Add(1)
				go func() {
					defer wg.Done()
					if cl.AllowN(addr, time.Now(), bu.N) {
						got.Add(int64(bu.N))
					}
				}()
			}
			wg.Wait()
			took := (s.Now() - now).Seconds()
			s.Probe("c15_concurrent_burst_checked")
			if float64(got.Load()) > b.tokens+rate*took+1e-6 {
				s.Fail("C15", "over-admitted", "burst %d: %d concurrent evaluations of cost %d for %s (subnet %s) were admitted a total cost of %d in %.6fs although the subnet's bucket (rate %.0f burst %d) held %.3f tokens", bi, bu.K, bu.N, bu.Addr, sn, got.Load(), took, rate, burst, b.tokens)
				break
			}
			b.tokens = max(0, b.tokens-float64(got.Load()))
			admitted[sn] = append(admitted[sn], adm{now, int(got.Load())})
		}
		// the bound of the statement, on the real decisions
		for sn, l := range admitted {
			for i := range l {
				sum := 0
				for j := i; j < len(l); j++ {
					sum += l[j].n
					w := (l[j].at - l[i].at).Seconds()
					if float64(sum) > float64(burst)+rate*w+1e-6 {
						s.Fail("C15", "bound", "subnet %s: cost %d admitted within %.3fs, bound burst %d + rate %.0f x window = %.3f", sn, sum, w, burst, rate, float64(burst)+rate*w)
						i = len(l)
						break
					}
				}
			}
		}
		s.ProbeN("c15_decisions_compared", int64(checked))
		s.ProbeN("c15_near_threshold_skipped", int64(near))
		s.ProbeN("c15_subnets", int64(len(ref)))
		res.Violations = s.Violations()
		res.Events = uint64(len(lp.Events))
		res.SimNs = int64(s.Now())
		res.LogHash = fmt.Sprintf("%016x", s.LogHash())
		res.SigHash = fmt.Sprintf("%016x", s.LogHash())
		res.Faults = s.Faults()
		res.Probes = s.Probes()
		res.Nontrivial = len(ref) > 1
		if keepLog != 0 {
			res.Sample = s.LogLines()
		}
	})
	return res
}
