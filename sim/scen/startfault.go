package scen

import (
	"os"
	"path/filepath"

	"github.com/IrineSistiana/mosproxy/app/router"
	"github.com/IrineSistiana/mosproxy/verifsim/plan"
	"github.com/IrineSistiana/mosproxy/verifsim/vnet"
)

// applyStartFault edits the configuration so that start-up must fail.
func applyStartFault(rp *plan.RouterPlan, cfg *router.Config, dir string) {
	f := rp.StartFault
	if f == nil {
		return
	}
	clamp := func(n int) int {
		if n <= 0 {
			return 0
		}
		return f.Pos % n
	}
	switch f.Kind {
	case "bad_pem":
		// a TLS listener with an unreadable certificate at position Pos
		i := clamp(len(cfg.Servers) + 1)
		sc := router.ServerConfig{Tag: "badpem", Protocol: "tls", Listen: "127.0.0.1:7853"}
		sc.Tls.Cert, sc.Tls.Key = filepath.Join(dir, "bad.pem"), filepath.Join(dir, "key.pem")
		cfg.Servers = append(cfg.Servers[:i], append([]router.ServerConfig{sc}, cfg.Servers[i:]...)...)
	case "bad_proto":
		i := clamp(len(cfg.Servers) + 1)
		sc := router.ServerConfig{Tag: "badproto", Protocol: "sctp", Listen: "127.0.0.1:7999"}
		cfg.Servers = append(cfg.Servers[:i], append([]router.ServerConfig{sc}, cfg.Servers[i:]...)...)
	case "bad_scheme":
		i := clamp(len(cfg.Upstreams) + 1)
		uc := router.UpstreamConfig{Tag: "badscheme", Addr: "gopher://10.1.1.1"}
		cfg.Upstreams = append(cfg.Upstreams[:i], append([]router.UpstreamConfig{uc}, cfg.Upstreams[i:]...)...)
	case "dup_tag":
		if len(cfg.Upstreams) > 0 {
			cfg.Upstreams = append(cfg.Upstreams, cfg.Upstreams[clamp(len(cfg.Upstreams))])
		}
	case "dup_tag_quic":
		// the repeated tag belongs to an upstream kind that opens its socket
		// when it is constructed
		if len(cfg.Upstreams) > 0 {
			uc := router.UpstreamConfig{Tag: cfg.Upstreams[clamp(len(cfg.Upstreams))].Tag, Addr: []string{"quic://10.1.1.9", "h3://10.1.1.9/dns-query"}[f.Pos%2], Tls: router.TlsConfig{InsecureSkipVerify: true}}
			cfg.Upstreams = append(cfg.Upstreams, uc)
		}
	case "dup_set_tag":
		if len(cfg.DomainSets) > 0 {
			cfg.DomainSets = append(cfg.DomainSets, cfg.DomainSets[clamp(len(cfg.DomainSets))])
		} else {
			cfg.DomainSets = []router.DomainSetConfig{{Tag: "x"}, {Tag: "x"}}
		}
	case "unknown_upstream_tag":
		i := clamp(len(cfg.Rules) + 1)
		r := router.RuleConfig{Forward: "no-such-upstream"}
		cfg.Rules = append(cfg.Rules[:i], append([]router.RuleConfig{r}, cfg.Rules[i:]...)...)
	case "unknown_domain_tag":
		i := clamp(len(cfg.Rules) + 1)
		r := router.RuleConfig{Domain: "no-such-set", Reject: 3}
		cfg.Rules = append(cfg.Rules[:i], append([]router.RuleConfig{r}, cfg.Rules[i:]...)...)
	case "missing_tag":
		cfg.Upstreams = append(cfg.Upstreams, router.UpstreamConfig{Addr: "10.1.1.1"})
	case "missing_addr":
		cfg.Upstreams = append(cfg.Upstreams, router.UpstreamConfig{Tag: "noaddr"})
	case "missing_file":
		cfg.DomainSets = append(cfg.DomainSets, router.DomainSetConfig{Tag: "nofile", Files: []string{filepath.Join(dir, "does-not-exist.txt")}})
	case "bad_ipmarker":
		// (whatever was set up for the cache before the marker file is read -
		// a memory cache, a redis client - has to be released again)
		fp := filepath.Join(dir, "ipmarker-bad.txt")
		if f.Pos%2 == 0 {
			os.WriteFile(fp, []byte("192.0.2.0,192.0.2.255,net-a\nnot-an-address,192.0.2.9,net-b\n"), 0o600)
		}
		cfg.Cache.IpMarker = fp
		if cfg.Cache.MemSize == 0 && cfg.Cache.Redis == "" {
			cfg.Cache.MemSize = 1 << 20
		}
	case "bad_ca":
		cfg.Upstreams = append(cfg.Upstreams, router.UpstreamConfig{Tag: "badca", Addr: "tls://10.1.1.1", Tls: router.TlsConfig{CA: filepath.Join(dir, "bad.pem")}})
	case "no_cert":
		cfg.Servers = append(cfg.Servers, router.ServerConfig{Tag: "nocert", Protocol: "https", Listen: "127.0.0.1:7443"})
	}
}

// occupy binds the address of the Pos-th server so that start-up meets EADDRINUSE.
func occupy(w *vnet.World, rp *plan.RouterPlan, pos int) {
	if len(rp.Servers) == 0 {
		return
	}
	s := rp.Servers[pos%len(rp.Servers)]
	switch s.Proto {
	case "udp", "", "quic":
		w.PeerListenUDP(s.Listen)
	default:
		w.PeerListen("tcp", s.Listen)
	}
}
