package scen

import (
	"context"
	"fmt"
	"net"
	"net/netip"
	"os"
	"path/filepath"
	"strconv"
	"strings"
	"sync"
	"testing"
	"testing/synctest"
	"time"

	"github.com/IrineSistiana/mosproxy/internal/dnsmsg"
	"github.com/IrineSistiana/mosproxy/internal/mlog"
	"github.com/IrineSistiana/mosproxy/verifsim/peers"
	"github.com/IrineSistiana/mosproxy/verifsim/plan"
	"github.com/IrineSistiana/mosproxy/verifsim/sim"
	"github.com/IrineSistiana/mosproxy/verifsim/vnet"
	"github.com/rs/zerolog"
)

func defaultPort(scheme string) int {
	switch scheme {
	case "tls", "tls+pipeline", "quic":
		return 853
	case "https", "h3":
		return 443
	case "http":
		return 80
	}
	return 53
}

type addrExpect struct {
	url       string
	dialAddr  string
	network   string
	target    string // ip:port or @name the connection must go to
	srvHost   string // where the fake server listens
	srvPort   int
	urlHost   string // where the URL alone would lead
	urlPort   int
	sni       string
	httpHost  string
	urlHostIP bool
}

// expectFor derives everything from the structured case, never from parsing
// the URL string.
func expectFor(c plan.AddrCase) addrExpect {
	i := c.Idx
	ip4 := fmt.Sprintf("10.7.%d.53", i)
	ip6 := fmt.Sprintf("fd00:7:%x::53", i)
	name := fmt.Sprintf("dns%d.example.test", i)
	var e addrExpect
	var urlHost, hostIP string
	switch c.HostForm {
	case "ip4":
		urlHost, hostIP, e.urlHostIP = ip4, ip4, true
	case "ip6":
		urlHost, hostIP, e.urlHostIP = "["+ip6+"]", ip6, true
	case "ip6upper":
		urlHost, hostIP, e.urlHostIP = "["+strings.ToUpper(ip6)+"]", ip6, true
	case "ip6long":
		urlHost, hostIP, e.urlHostIP = fmt.Sprintf("[fd00:7:%x:0:0:0:0:53]", i), ip6, true
	default:
		urlHost, hostIP = name, ip4 // the name resolves to ip4 in the run's host table
	}
	hostport := urlHost
	if c.Port != 0 {
		hostport += ":" + strconv.Itoa(c.Port)
	}
	switch c.Scheme {
	case "":
		e.url = hostport
	case "https", "http", "h3":
		e.url = c.Scheme + "://" + hostport + "/dns-query"
	default:
		e.url = c.Scheme + "://" + hostport
	}
	def := defaultPort(c.Scheme)
	port := c.Port
	if port == 0 {
		port = def
	}
	e.network = "tcp"
	if c.Scheme == "" || c.Scheme == "udp" || c.Scheme == "quic" || c.Scheme == "h3" {
		e.network = "udp"
	}
	e.srvHost, e.srvPort = hostIP, port
	e.urlHost, e.urlPort = hostIP, port
	d4 := fmt.Sprintf("10.8.%d.99", i)
	d6 := fmt.Sprintf("fd00:8:%x::99", i)
	dname := fmt.Sprintf("dial%d.example.test", i) // resolves to d4
	switch c.DialForm {
	case "ip4":
		e.dialAddr, e.srvHost, e.srvPort = d4, d4, def
	case "ip4port":
		e.dialAddr, e.srvHost, e.srvPort = d4+":"+strconv.Itoa(c.DialPort), d4, c.DialPort
	case "ip6port":
		e.dialAddr, e.srvHost, e.srvPort = "["+d6+"]:"+strconv.Itoa(c.DialPort), d6, c.DialPort
	case "ip6bare":
		e.dialAddr, e.srvHost, e.srvPort = d6, d6, def
	case "name":
		e.dialAddr, e.srvHost, e.srvPort = dname, d4, def
	case "nameport":
		e.dialAddr, e.srvHost, e.srvPort = dname+":"+strconv.Itoa(c.DialPort), d4, c.DialPort
	case "unix":
		e.dialAddr = fmt.Sprintf("@verifsim-up-%d", i)
		e.network = "unix"
		e.srvHost, e.srvPort = e.dialAddr, 0
	}
	if e.network == "unix" {
		e.target = e.dialAddr
	} else {
		e.target = netip.AddrPortFrom(netip.MustParseAddr(e.srvHost), uint16(e.srvPort)).String()
	}
	// TLS server name / HTTP Host derive from the URL host
	if !e.urlHostIP {
		e.sni = name
	}
	e.httpHost = hostport
	return e
}

// RunAddr executes C17 (a): one upstream object and one exchange per case.
func RunAddr(t *testing.T, p *plan.Plan, keepLog int) *Result {
	res := &Result{Seed: p.Seed, Family: p.Family, Focus: p.Focus, Arm: p.Arm, Stats: map[string]int64{}}
	pki := peers.NewPKI()
	dir := filepath.Join(os.TempDir(), fmt.Sprintf("verifsim-%d", os.Getpid()))
	os.RemoveAll(dir)
	os.Mkdir(dir, 0o700)
	defer os.RemoveAll(dir)
	os.WriteFile(filepath.Join(dir, "ca.pem"), pki.CAPEM, 0o600)
	mlog.SetLvl(zerolog.Disabled)
	func() {
		defer func() {
			if r := recover(); r != nil {
				if msg := fmt.Sprint(r); strings.Contains(msg, "deadlock") && strings.Contains(msg, "bubble") {
					return
				}
				panic(r)
			}
		}()
		synctest.Test(t, func(t *testing.T) {
			s := sim.New(p.Seed, keepLog)
			w := vnet.NewWorld(s)
			installKnobs(s, p.Knobs)
			defer uninstallKnobs()
			var mu sync.Mutex
			var dials []dialRec
			w.OnDial = func(owner vnet.Owner, network, address, resolved string) {
				if owner == vnet.OwnerProxy {
					mu.Lock()
					dials = append(dials, dialRec{s.Now(), network, address, resolved})
					mu.Unlock()
				}
			}
			go func() {
				defer s.Stop()
				for _, c := range p.Addr {
					e := expectFor(c)
					i := c.Idx
					w.AddHost(fmt.Sprintf("dns%d.example.test", i), netip.MustParseAddr(fmt.Sprintf("10.7.%d.53", i)))
					w.AddHost(fmt.Sprintf("dial%d.example.test", i), netip.MustParseAddr(fmt.Sprintf("10.8.%d.99", i)))
					kind := c.Scheme
					if kind == "" {
						kind = "udp"
					}
					spec := plan.UpstreamSpec{Tag: fmt.Sprintf("a%d", i), Addr: e.url, DialAddr: e.dialAddr, Kind: kind, Host: e.srvHost, Port: e.srvPort, TLS: "good", UseCA: true}
					if c.DialDown {
						// the server is where the URL points; nothing listens at the override
						spec.Host, spec.Port = e.urlHost, e.urlPort
					}
					tcTok := fmt.Sprintf("tc%d", i)
					srv := peers.NewUpServer(s, w, p.Seed, spec, map[string]*plan.TokenSpec{
						tcTok: {Ans: plan.AnswerSpec{NAn: 1, TTLs: []uint32{60}, Shape: "plain"}, Acts: []plan.UpAction{{Kind: "truncate_udp", DelayUs: 200}}},
					}, pki)
					if err := srv.Start(); err != nil {
						s.Fail("C17", "harness", "cannot start fake server for case %+v: %v", c, err)
						continue
					}
					mu.Lock()
					dials = dials[:0]
					mu.Unlock()
					name := fmt.Sprintf("addr %q dial_addr %q", e.url, e.dialAddr)
					u, err := buildUpstream(spec, pki, dir, 0)
					if err != nil {
						s.Fail("C17", "address-rejected", "%s: NewUpstream failed: %v", name, err)
						srv.Stop()
						continue
					}
					ctx, cancel := context.WithTimeout(context.Background(), 3*time.Second)
					call := &plan.XCall{Idx: i, Token: fmt.Sprintf("t%d", i), ID: uint16(i), Type: 1}
					m, xerr := u.ExchangeContext(ctx, xQuery(call))
					cancel()
					if m != nil {
						dnsmsg.ReleaseMsg(m)
					}
					mu.Lock()
					ds := append([]dialRec(nil), dials...)
					mu.Unlock()
					s.Probe("c17a_case_checked")
					res.Stats["combo:"+c.Scheme+"/"+c.HostForm+"/"+strconv.FormatBool(c.Port != 0)+"/"+c.DialForm]++
					if len(ds) == 0 {
						s.Fail("C17", "no-dial", "%s: no connection attempt at all (%v)", name, xerr)
					}
					for _, d := range ds {
						net1 := d.Network
						if strings.HasPrefix(net1, "udp") {
							net1 = "udp"
						} else if strings.HasPrefix(net1, "tcp") {
							net1 = "tcp"
						}
						got := d.Resolved
						if net1 == "unix" {
							got = d.Address
						}
						if net1 != e.network || got != e.target {
							s.Fail("C17", "dial-target", "%s: dialled %s %q (resolved %q), want %s %s", name, d.Network, d.Address, d.Resolved, e.network, e.target)
						}
					}
					if c.DialDown {
						s.Probe("c17a_dial_down_checked")
						if xerr == nil {
							s.Fail("C17", "override-bypassed", "%s: nothing listens at the dial_addr target %s, yet the exchange succeeded", name, e.target)
						}
						for _, q := range srv.QueriesCopy() {
							s.Fail("C17", "override-bypassed", "%s: the server at the URL's own address %s:%d received a query (token %s) although dial_addr points elsewhere", name, e.urlHost, e.urlPort, q.Token)
							break
						}
					} else if xerr != nil {
						s.Fail("C17", "exchange-failed", "%s: exchange failed against a server at %s %s presenting a valid certificate: %v", name, e.network, e.target, xerr)
					}
					if kind == "udp" && xerr == nil {
						// second exchange: the UDP reply is truncated, the TCP
						// leg has to go to the same place
						mu.Lock()
						dials = dials[:0]
						mu.Unlock()
						ctx, cancel := context.WithTimeout(context.Background(), 3*time.Second)
						m, xerr2 := u.ExchangeContext(ctx, xQuery(&plan.XCall{Idx: i, Token: tcTok, ID: uint16(i + 7), Type: 1}))
						cancel()
						if m != nil {
							dnsmsg.ReleaseMsg(m)
						}
						mu.Lock()
						ds2 := append([]dialRec(nil), dials...)
						mu.Unlock()
						s.Probe("c17a_tcp_leg_checked")
						tcpDials := 0
						for _, d := range ds2 {
							got := d.Resolved
							if d.Network == "unix" {
								got = d.Address
							}
							if strings.HasPrefix(d.Network, "tcp") || d.Network == "unix" {
								tcpDials++
							}
							if got != e.target {
								s.Fail("C17", "dial-target", "%s: the TCP leg after a truncated UDP reply dialled %s %q (resolved %q), want %s", name, d.Network, d.Address, d.Resolved, e.target)
							}
						}
						if xerr2 != nil {
							s.Fail("C17", "exchange-failed", "%s: exchange with a truncated UDP reply failed although the TCP server at %s answers: %v", name, e.target, xerr2)
						} else if tcpDials == 0 {
							s.Fail("C17", "no-dial", "%s: truncated UDP reply, but no stream connection was dialled", name)
						}
					}
					for _, q := range srv.QueriesCopy() {
						switch kind {
						case "tls", "tls+pipeline", "https":
							if q.SNI != e.sni {
								s.Fail("C17", "sni", "%s: server saw SNI %q, want %q", name, q.SNI, e.sni)
							}
						}
						if kind == "https" || kind == "http" {
							if q.Host != e.httpHost {
								s.Fail("C17", "http-host", "%s: server saw Host %q, want %q", name, q.Host, e.httpHost)
							}
							if q.Path != "/dns-query" {
								s.Fail("C17", "http-path", "%s: server saw path %q", name, q.Path)
							}
						}
					}
					u.Close()
					srv.Stop()
					time.Sleep(100 * time.Millisecond)
				}
			}()
			s.Run(time.Hour)
			s.Settle(60 * time.Second)
			finishSimple(s, res, keepLog, len(p.Addr) > 1)
		})
	}()
	return res
}

func finishSimple(s *sim.Sim, res *Result, keepLog int, nontrivial bool) {
	res.Violations = s.Violations()
	res.Events = s.Events()
	res.SimNs = int64(s.Now())
	res.LogHash = fmt.Sprintf("%016x", s.LogHash())
	res.SigHash = fmt.Sprintf("%016x", s.LogHash())
	res.Faults = s.Faults()
	res.Probes = s.Probes()
	res.Nontrivial = nontrivial
	if keepLog != 0 {
		res.Sample = s.LogLines()
	}
}

// RunAuth executes C17 (b): upstream authentication.
func RunAuth(t *testing.T, p *plan.Plan, keepLog int) *Result {
	res := &Result{Seed: p.Seed, Family: p.Family, Focus: p.Focus, Arm: p.Arm, Stats: map[string]int64{}}
	pki := peers.NewPKI()
	dir := filepath.Join(os.TempDir(), fmt.Sprintf("verifsim-%d", os.Getpid()))
	os.RemoveAll(dir)
	os.Mkdir(dir, 0o700)
	defer os.RemoveAll(dir)
	os.WriteFile(filepath.Join(dir, "ca.pem"), pki.CAPEM, 0o600)
	mlog.SetLvl(zerolog.Disabled)
	func() {
		defer func() {
			if r := recover(); r != nil {
				if msg := fmt.Sprint(r); strings.Contains(msg, "deadlock") && strings.Contains(msg, "bubble") {
					return
				}
				panic(r)
			}
		}()
		synctest.Test(t, func(t *testing.T) {
			s := sim.New(p.Seed, keepLog)
			w := vnet.NewWorld(s)
			installKnobs(s, p.Knobs)
			defer uninstallKnobs()
			go func() {
				defer s.Stop()
				for _, c := range p.Auth {
					i := c.Idx
					ip := fmt.Sprintf("10.9.%d.53", i)
					host := ip
					if c.ByName {
						host = fmt.Sprintf("auth%d.example.test", i)
						w.AddHost(host, netip.MustParseAddr(ip))
					}
					url := c.Kind + "://" + host
					if c.Kind == "https" {
						url += "/dns-query"
					}
					spec := plan.UpstreamSpec{Tag: fmt.Sprintf("b%d", i), Addr: url, Kind: c.Kind, Host: ip, Port: defaultPort(c.Kind), TLS: c.Profile, UseCA: c.Option == "ca", Skip: c.Option == "skip"}
					srv := peers.NewUpServer(s, w, p.Seed, spec, map[string]*plan.TokenSpec{}, pki)
					if err := srv.Start(); err != nil {
						s.Fail("C17", "harness", "cannot start fake server: %v", err)
						continue
					}
					u, err := buildUpstream(spec, pki, dir, 0)
					if err != nil {
						s.Fail("C17", "address-rejected", "NewUpstream(%q) failed: %v", url, err)
						srv.Stop()
						continue
					}
					ctx, cancel := context.WithTimeout(context.Background(), 4*time.Second)
					call := &plan.XCall{Idx: i, Token: fmt.Sprintf("t%d", i), ID: uint16(i), Type: 1}
					m, xerr := u.ExchangeContext(ctx, xQuery(call))
					cancel()
					ok := m != nil && xerr == nil
					if m != nil {
						dnsmsg.ReleaseMsg(m)
					}
					// (the process's system trust store holds the "other" CA only, see run_test.go)
					want := c.Option == "skip" || c.Option == "ca" && c.Profile == "good" || c.Option == "none" && c.Profile == "otherca"
					s.Probe("c17b_case_checked")
					res.Stats["authcombo:"+c.Kind+"/"+c.Profile+"/"+c.Option+"/"+strconv.FormatBool(c.ByName)]++
					name := fmt.Sprintf("%s upstream %q, server certificate %q, option %q", c.Kind, url, c.Profile, c.Option)
					if ok && !want {
						s.Fail("C17", "unauthenticated-upstream-accepted", "%s: the exchange succeeded", name)
						nq := len(srv.QueriesCopy())
						_ = nq
					}
					if !ok && want {
						s.Fail("C17", "authenticated-upstream-rejected", "%s: the exchange failed: %v", name, xerr)
					}
					if !want {
						// no query may have been sent before the handshake verified the peer
						for _, q := range srv.QueriesCopy() {
							s.Fail("C17", "query-sent-to-unauthenticated-peer", "%s: the server received a query (token %s)", name, q.Token)
							break
						}
					}
					u.Close()
					srv.Stop()
					time.Sleep(100 * time.Millisecond)
				}
			}()
			s.Run(time.Hour)
			s.Settle(60 * time.Second)
			finishSimple(s, res, keepLog, len(p.Auth) > 1)
		})
	}()
	return res
}

var _ = net.JoinHostPort
