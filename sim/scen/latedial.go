package scen

import (
	"context"
	"crypto/tls"
	"crypto/x509"
	"fmt"
	"net"
	"net/netip"
	"strings"
	"sync"
	"testing"
	"testing/synctest"
	"time"

	"github.com/IrineSistiana/mosproxy/internal/dnsmsg"
	"github.com/IrineSistiana/mosproxy/internal/mlog"
	"github.com/IrineSistiana/mosproxy/internal/upstream/transport"
	"github.com/IrineSistiana/mosproxy/verifsim/peers"
	"github.com/IrineSistiana/mosproxy/verifsim/plan"
	"github.com/IrineSistiana/mosproxy/verifsim/sim"
	"github.com/IrineSistiana/mosproxy/verifsim/vnet"
	"github.com/quic-go/quic-go"
	"github.com/rs/zerolog"
)

// RunLateDial executes C18's "connections whose dial completes after the
// close" clause at the level where it is observable: the exported transports
// (reuse, pipeline, quic) are built directly with an *injected dialer* - the
// seam the code offers - that finishes its dial after a seeded delay whether
// or not its context has been cancelled meanwhile, as a dialer that does not
// watch its context would.  Calls start, Close() comes at a seeded instant
// around the completion of the dial, and afterwards every connection the
// dialer handed out has to be closed, in-flight calls have to have returned,
// and later calls fail.
func RunLateDial(t *testing.T, p *plan.Plan, keepLog int) *Result {
	ld := p.LateDial
	res := &Result{Seed: p.Seed, Family: p.Family, Focus: p.Focus, Arm: p.Arm, Stats: map[string]int64{}}
	pki := peers.NewPKI()
	mlog.SetLvl(zerolog.Disabled)
	func() {
		defer func() {
			if r := recover(); r != nil {
				if msg := fmt.Sprint(r); strings.Contains(msg, "deadlock") && strings.Contains(msg, "bubble") {
					return
				}
				panic(r)
			}
		}()
		synctest.Test(t, func(t *testing.T) {
			s := sim.New(p.Seed, keepLog)
			w := vnet.NewWorld(s)
			installKnobs(s, p.Knobs)
			defer uninstallKnobs()
			kind := map[string]string{"reuse": "tcp", "pipeline": "tcp+pipeline", "quic": "quic"}[ld.Kind]
			spec := plan.UpstreamSpec{Tag: "up0", Kind: kind, Host: "10.1.0.10", Port: 5353, TLS: "good", UseCA: true}
			if kind == "quic" {
				spec.Addr = "quic://10.1.0.10:5353"
			}
			srv := peers.NewUpServer(s, w, p.Seed, spec, map[string]*plan.TokenSpec{}, pki)
			if err := srv.Start(); err != nil {
				s.Fail("C18", "harness", "cannot start fake server: %v", err)
				finishSimple(s, res, keepLog, false)
				return
			}
			target := "10.1.0.10:5353"

			var mu sync.Mutex
			type handed struct {
				at     time.Duration
				closed func() bool
				what   string
			}
			var conns []handed
			ndial := 0
			delay := func() time.Duration {
				mu.Lock()
				ndial++
				n := ndial
				mu.Unlock()
				if n-1 < len(ld.DialDelayUs) {
					return us(ld.DialDelayUs[n-1])
				}
				return us(ld.DialDelayUs[len(ld.DialDelayUs)-1])
			}
			dialStream := func(ctx context.Context) (net.Conn, error) {
				d := delay()
				if ld.HonourCtx {
					select {
					case <-time.After(d):
					case <-ctx.Done():
						s.Logf("latedial", "dial given up at %v: %v", s.Now(), ctx.Err())
						return nil, ctx.Err()
					}
				} else {
					time.Sleep(d) // the dial takes its time and does not look at ctx
				}
				c, err := w.DialProxy(context.Background(), "tcp", target)
				if err != nil {
					return nil, err
				}
				sc := c.(*vnet.StreamConn)
				mu.Lock()
				conns = append(conns, handed{s.Now(), sc.LocallyClosed, fmt.Sprintf("tcp connection #%d", len(conns))})
				mu.Unlock()
				s.Logf("latedial", "handed out tcp conn at %v", s.Now())
				return c, nil
			}
			var quicTr *quic.Transport
			var quicSock net.PacketConn
			dialQuic := func(ctx context.Context) (quic.Connection, error) {
				d := delay()
				if ld.HonourCtx {
					select {
					case <-time.After(d):
					case <-ctx.Done():
						return nil, ctx.Err()
					}
				} else {
					time.Sleep(d)
				}
				pool := x509.NewCertPool()
				pool.AppendCertsFromPEM(pki.CAPEM)
				tc := &tls.Config{RootCAs: pool, ServerName: "10.1.0.10", NextProtos: []string{"doq"}}
				ua := net.UDPAddrFromAddrPort(netip.MustParseAddrPort(target))
				c, err := quicTr.Dial(context.Background(), ua, tc, &quic.Config{MaxIdleTimeout: 30 * time.Second, HandshakeIdleTimeout: 5 * time.Second})
				if err != nil {
					return nil, err
				}
				mu.Lock()
				conns = append(conns, handed{s.Now(), func() bool { return c.Context().Err() != nil }, fmt.Sprintf("quic connection #%d", len(conns))})
				mu.Unlock()
				s.Logf("latedial", "handed out quic conn at %v", s.Now())
				return c, nil
			}
			var tr transport.Transport
			switch ld.Kind {
			case "reuse":
				tr = transport.NewReuseConnTransport(transport.ReuseConnOpts{DialContext: dialStream, DialTimeout: us(ld.DialTimeoutUs)})
			case "pipeline":
				tr = transport.NewPipelineTransport(transport.PipelineOpts{DialContext: dialStream, DialTimeout: us(ld.DialTimeoutUs), IsTCP: true})
			case "quic":
				pc, err := vnet.ListenPacket("udp", "10.99.0.1:0")
				if err != nil {
					s.Fail("C18", "harness", "udp socket: %v", err)
					finishSimple(s, res, keepLog, false)
					return
				}
				quicSock = pc
				quicTr = &quic.Transport{Conn: pc}
				tr = transport.NewQuicTransport(transport.QuicTransportOpts{DialContext: dialQuic, DialTimeout: us(ld.DialTimeoutUs)})
			}
			type callRec struct {
				start, end time.Duration
				done       bool
				ok         bool
				err        string
			}
			calls := make([]*callRec, len(ld.CallAtUs))
			var closeRet time.Duration
			closeDone := false
			go func() {
				defer s.Stop()
				var wg sync.WaitGroup
				for i, at := range ld.CallAtUs {
					cr := &callRec{}
					calls[i] = cr
					wg.Add(1)
					go func() {
						defer wg.Done()
						time.Sleep(us(at))
						ctx, cancel := context.WithTimeout(context.Background(), us(ld.CallLimitUs))
						defer cancel()
						cr.start = s.Now()
						m, err := tr.ExchangeContext(ctx, xQuery(&plan.XCall{Idx: i, Token: fmt.Sprintf("t%d", i), ID: uint16(100 + i), Type: 1}))
						cr.end, cr.done = s.Now(), true
						if err != nil {
							cr.err = err.Error()
						}
						if m != nil {
							cr.ok = true
							dnsmsg.ReleaseMsg(m)
						}
					}()
				}
				time.Sleep(us(ld.CloseAtUs))
				s.Logf("latedial", "Close at %v", s.Now())
				tr.Close()
				closeRet, closeDone = s.Now(), true
				if ld.SecondClose {
					tr.Close()
				}
				wg.Wait()
				// everything the dialer may still hand out has been handed out
				// after the longest delay; then one more second
				var maxd int64
				for _, d := range ld.DialDelayUs {
					maxd = max(maxd, d)
				}
				time.Sleep(us(maxd) + 2*time.Second)
			}()
			s.Run(10 * time.Minute)
			sigma := time.Duration(0)
			if p.Knobs.YieldDensity > 0 && p.Knobs.StallProb > 0 {
				sigma = 4 * time.Duration(max(1000, p.Knobs.StallMaxUs)) * time.Microsecond
			}
			s.Probe("c18_latedial_checked")
			if !closeDone {
				s.Fail("C18", "close-hangs", "Close of the %s transport did not return", ld.Kind)
			} else {
				mu.Lock()
				for _, c := range conns {
					if c.at > closeRet {
						s.Probe("c18_dial_completed_after_close")
					}
					if !c.closed() {
						s.Fail("C18", "late-connection-left-open", "%s transport: %s, handed out by the injected dialer at %v (Close returned at %v), is still open %v later", ld.Kind, c.what, c.at, closeRet, s.Now()-c.at)
					}
				}
				mu.Unlock()
				for i, c := range calls {
					if c == nil {
						continue
					}
					if !c.done {
						s.Fail("C18", "exchange-hangs-after-close", "%s transport: call %d never returned (Close returned at %v)", ld.Kind, i, closeRet)
						continue
					}
					if c.start > closeRet+time.Millisecond {
						if c.ok {
							s.Fail("C18", "exchange-after-close-succeeded", "%s transport: call %d started %v after Close returned and got a reply", ld.Kind, i, c.start-closeRet)
						}
						if c.end-c.start > time.Second+sigma {
							s.Fail("C18", "exchange-after-close-slow", "%s transport: call %d started after Close and took %v to fail", ld.Kind, i, c.end-c.start)
						}
					} else if c.end > closeRet+time.Second+sigma && c.start+us(ld.CallLimitUs) > closeRet+2*time.Second {
						s.Fail("C18", "inflight-outlives-close", "%s transport: call %d was in flight when Close returned at %v and only returned %v later (%s)", ld.Kind, i, closeRet, c.end-closeRet, c.err)
					}
				}
			}
			if quicTr != nil {
				quicTr.Close()
				quicSock.Close()
			}
			srv.Stop()
			s.Settle(40 * time.Second)
			finishSimple(s, res, keepLog, true)
		})
	}()
	return res
}
