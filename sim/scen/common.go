// Package scen runs one plan inside a synctest bubble and evaluates the
// property oracles over the recorded history.
package scen

import (
	"fmt"
	"net"
	"os"
	"runtime"
	"strings"
	"sync"
	"sync/atomic"
	"time"

	"github.com/IrineSistiana/mosproxy/verifsim/plan"
	"github.com/IrineSistiana/mosproxy/verifsim/sim"
	"github.com/IrineSistiana/mosproxy/verifsim/vbytes"
	"github.com/IrineSistiana/mosproxy/verifsim/vgnet"
	"github.com/IrineSistiana/mosproxy/verifsim/vipv6"
	"github.com/IrineSistiana/mosproxy/verifsim/vnet"
	"github.com/IrineSistiana/mosproxy/verifsim/vsync"
	"github.com/maypok86/otter"
)

// Result is what one run reports to the campaign driver.
type Result struct {
	Seed       uint64           `json:"seed"`
	Family     string           `json:"family"`
	Focus      string           `json:"focus"`
	Arm        string           `json:"arm"`
	Violations []sim.Violation  `json:"violations"`
	Events     uint64           `json:"events"`
	SimNs      int64            `json:"sim_ns"`
	LogHash    string           `json:"log_hash"`
	SigHash    string           `json:"sig_hash"`
	Faults     map[string]int64 `json:"faults"`
	Probes     map[string]int64 `json:"probes"`
	Stats      map[string]int64 `json:"stats"`
	Exhausted  bool             `json:"exhausted,omitempty"`
	Nontrivial bool             `json:"nontrivial"`
	Note       string           `json:"note,omitempty"`
	Sample     any              `json:"sample,omitempty"`
	// AcceptExit/AcceptStderr: this result was written before a step that may
	// end the process from inside; it is the run's result iff the process
	// exits with that status and that text on stderr (see RunCLI).
	AcceptExit   int    `json:"accept_exit,omitempty"`
	AcceptStderr string `json:"accept_stderr,omitempty"`
}

var (
	siteMu   sync.Mutex
	siteName = map[uintptr]string{}
	siteCtr  = map[string]uint64{}
)

func site(pc uintptr) string {
	siteMu.Lock()
	defer siteMu.Unlock()
	if s, ok := siteName[pc]; ok {
		return s
	}
	f, _ := runtime.CallersFrames([]uintptr{pc}).Next()
	file := f.File
	if i := strings.LastIndex(file, "/"); i >= 0 {
		if j := strings.LastIndex(file[:i], "/"); j >= 0 {
			file = file[j+1:]
		}
	}
	s := fmt.Sprintf("%s:%d", file, f.Line)
	siteName[pc] = s
	return s
}

// installKnobs wires the per-run knobs into the facades.
func installKnobs(s *sim.Sim, k plan.Knobs) {
	if k.OldTLSResume {
		os.Setenv("GODEBUG", os.Getenv("GODEBUG")+",verifsimoldresume=1")
	}
	vbytes.Enabled = true
	vbytes.GetFill = k.GetFill
	vbytes.Quarantine = k.Quarantine
	vbytes.PassDoubleRelease = k.PassDoubleRelease
	vbytes.NoPoison = k.NoPoison
	vbytes.Report = func(clause, detail string) { s.Fail("C20", clause, "%s", detail) }
	vsync.PoolPoison = k.PoolPoison
	otter.SetSimBatch(k.OtterBatch)
	skew := k.OtterSkewUs
	if skew == 0 {
		skew = 500
	}
	otter.SetSimSkew(time.Duration(skew) * time.Microsecond)
	vsync.PoolQuarantine = k.PoolQuarantine
	vsync.PoolReport = func(clause, detail string) { s.Fail("C20", "pooled-object-"+clause, "%s", detail) }
	if k.UDPMaxBatch > 0 {
		vipv6.MaxBatch = k.UDPMaxBatch
	}
	vipv6.Coalesce = time.Duration(k.UDPCoalesce) * time.Microsecond
	if v := os.Getenv("SIM_PROGRESS"); v != "" {
		fmt.Sscan(v, &sim.Progress)
	}
	if os.Getenv("SIM_GNET_DEBUG") != "" {
		vgnet.Debug = func(kind, link string, n, a, b, c int) {
			s.Logf(kind, "%s n=%d inbound %d->%d left=%d", link, n, a, b, c)
		}
	}
	if k.GnetReadCap > 0 {
		vgnet.ReadBufferCap = k.GnetReadCap
	}
	vsync.OrderKey = func(c any) (uint64, bool) {
		for i := 0; i < 3; i++ {
			switch x := c.(type) {
			case *vnet.StreamConn:
				return uint64(x.ID()), true
			case *vnet.UDPConn:
				return uint64(x.ID()), true
			case interface{ NetConn() net.Conn }:
				c = x.NetConn()
			default:
				return 0, false
			}
		}
		return 0, false
	}
	if k.YieldDensity > 0 {
		// between the writes of a gather-write that has no writev under it
		var wrN uint64
		vnet.SyscallYield = func() {
			if yieldPaused.Load() {
				return
			}
			n := atomic.AddUint64(&wrN, 1)
			if !s.Coin("wry", n, 0.5) {
				return
			}
			s.Fault("yield_at_write")
			time.Sleep(s.Dur("wryd", n, 50, 20_000))
		}
		// the gnet loop notices posted work (AsyncWrite, Close) a little later
		var wakeN uint64
		vgnet.WakeDelay = func() time.Duration {
			n := atomic.AddUint64(&wakeN, 1)
			if !s.Coin("gnetwake", n, 0.5) {
				return 0
			}
			s.Fault("gnet_wake_delay")
			return s.Dur("gnetwaked", n, 1_000, 300_000)
		}
		// inserted scheduling points (vsync.Y): short yields only, at a third of
		// the density - there are many more of them than lock sites, and long
		// stalls at each would add up to more than any oracle's slack
		vsync.HookY = func(pc uintptr) {
			if yieldPaused.Load() {
				return
			}
			st := site(pc)
			if k.YieldMask != 0 && (k.YieldMask>>(sim.HashStr(st)&63))&1 == 0 {
				return
			}
			siteMu.Lock()
			siteCtr[st]++
			n := siteCtr[st]
			siteMu.Unlock()
			if !s.Coin("Y:"+st, n, k.YieldDensity/3) {
				return
			}
			d := s.Dur("Yd:"+st, n, 50, 20_000)
			if strings.HasPrefix(st, "cache/mem.go") && s.Coin("Yl:"+st, n, 0.15) {
				// between two statements of the memory cache's store and lookup
				// paths (a handful of sites, each passed once per operation) a
				// goroutine may lose the processor for a scheduler quantum
				d = s.Dur("Yld:"+st, n, 20_000, 3_000_000)
			}
			s.Fault("yield")
			s.Logf("yield", "%s %d", st, int64(d))
			time.Sleep(d)
		}
		// right after a read/write lock was released: mostly short, one in
		// ten as long as a scheduler quantum (a goroutine that lost the CPU
		// between leaving the critical section and its next statement)
		vsync.HookU = func(pc uintptr) {
			if yieldPaused.Load() {
				return
			}
			st := site(pc)
			if k.YieldMask != 0 && (k.YieldMask>>(sim.HashStr(st)&63))&1 == 0 {
				return
			}
			siteMu.Lock()
			siteCtr["U"+st]++
			n := siteCtr["U"+st]
			siteMu.Unlock()
			forceU := false
			if !forceU && !s.Coin("U:"+st, n, k.YieldDensity/2) {
				return
			}
			d := s.Dur("Ud:"+st, n, 50, 20_000)
			if forceU || s.Coin("Ul:"+st, n, 0.1) {
				d = s.Dur("Ud2:"+st, n, 20_000, 5_000_000)
			}
			s.Fault("yield_after_unlock")
			s.Logf("yield", "U %s %d", st, int64(d))
			time.Sleep(d)
		}
		vsync.Hook = func(pc uintptr) {
			if yieldPaused.Load() {
				return
			}
			st := site(pc)
			if k.YieldMask != 0 && (k.YieldMask>>(sim.HashStr(st)&63))&1 == 0 {
				return
			}
			siteMu.Lock()
			siteCtr[st]++
			n := siteCtr[st]
			siteMu.Unlock()
			if !s.Coin("y:"+st, n, k.YieldDensity) {
				return
			}
			d := s.Dur("yd:"+st, n, 50, 20_000) // 50ns .. 20µs
			if s.Coin("ys:"+st, n, k.StallProb) {
				d = s.Dur("ysd:"+st, n, time.Millisecond, time.Duration(max(1000, k.StallMaxUs))*time.Microsecond)
				s.Fault("stall")
			} else {
				s.Fault("yield")
			}
			s.Logf("yield", "%s %d", st, int64(d))
			time.Sleep(d)
		}
		vsync.Pick = func(n int) int {
			siteMu.Lock()
			siteCtr["pick"]++
			c := siteCtr["pick"]
			siteMu.Unlock()
			return s.IntN("pick", c, n)
		}
	}
}

// yieldPaused switches the lock-site yields off for a stretch of a run (the
// sequential part of the id-exhaustion scenario).
var yieldPaused atomic.Bool

func uninstallKnobs() {
	vsync.Hook = nil
	vsync.HookY = nil
	vsync.HookU = nil
	vsync.Pick = nil
	vgnet.WakeDelay = nil
	vnet.SyscallYield = nil
	vbytes.Drain()
	vbytes.Report = nil
	vsync.PoolPoison = false
	vsync.PoolReport = nil
}

func us(v int64) time.Duration { return time.Duration(v) * time.Microsecond }
