package scen

import (
	"context"
	"fmt"
	mrand "math/rand/v2"
	"net/netip"
	"os"
	"path/filepath"
	"runtime"
	"strconv"
	"strings"
	"testing"
	"testing/synctest"
	"time"

	"github.com/IrineSistiana/mosproxy/app/router"
	"github.com/IrineSistiana/mosproxy/internal/mlog"
	"github.com/IrineSistiana/mosproxy/verifsim/peers"
	"github.com/IrineSistiana/mosproxy/verifsim/plan"
	"github.com/IrineSistiana/mosproxy/verifsim/refdns"
	"github.com/IrineSistiana/mosproxy/verifsim/sim"
	"github.com/IrineSistiana/mosproxy/verifsim/vnet"
	"github.com/IrineSistiana/mosproxy/verifsim/vredis"
	"github.com/rs/zerolog"
)

// History is everything the oracles look at.
type History struct {
	P              *plan.Plan
	RP             *plan.RouterPlan
	S              *sim.Sim
	Ops            []*peers.OpRecord
	Conns          []*peers.ConnRecord
	Ups            map[string]*peers.UpServer
	UpOrder        []string
	Sets           map[string]*refSet
	StartErr       error
	Started        bool
	OpenAfterClose []string
	CloseReturned  bool
}

// BuildConfig turns the plan into the router's configuration, writing the
// files it refers to into dir.
func BuildConfig(rp *plan.RouterPlan, pki *peers.PKI, dir string) (*router.Config, error) {
	cfg := &router.Config{}
	_, certPEM, keyPEM := pki.Leaf("good", false, peers.ProxyServerName)
	certF, keyF, caF := filepath.Join(dir, "cert.pem"), filepath.Join(dir, "key.pem"), filepath.Join(dir, "ca.pem")
	if err := os.WriteFile(certF, certPEM, 0o600); err != nil {
		return nil, err
	}
	os.WriteFile(keyF, keyPEM, 0o600)
	os.WriteFile(caF, pki.CAPEM, 0o600)
	os.WriteFile(filepath.Join(dir, "bad.pem"), []byte("-----BEGIN CERTIFICATE-----\nnot base64!\n-----END CERTIFICATE-----\n"), 0o600)
	for _, s := range rp.Servers {
		sc := router.ServerConfig{Tag: s.Tag, Protocol: s.Proto, Listen: s.Listen, IdleTimeout: s.IdleTimeout}
		sc.Tcp.MaxConcurrentQueries = s.MaxConcurrent
		sc.Udp.Threads = s.UDPThreads
		sc.Udp.MultiRoutes = s.MultiRoutes
		sc.Http.ClientAddrHeader = s.ClientAddrHeader
		sc.Quic.MaxStreams = s.QuicMaxStreams
		switch s.Proto {
		case "tls", "https", "quic":
			sc.Tls.Cert, sc.Tls.Key = certF, keyF
			if s.MTLS {
				sc.Tls.CA = caF
				sc.Tls.VerifyClientCert = true
			}
		}
		cfg.Servers = append(cfg.Servers, sc)
	}
	for _, u := range rp.Upstreams {
		uc := router.UpstreamConfig{Tag: u.Tag, Addr: u.Addr, DialAddr: u.DialAddr}
		if u.UseCA {
			uc.Tls.CA = caF
		}
		if u.OtherCA {
			uc.Tls.CA = filepath.Join(dir, "otherca.pem")
			os.WriteFile(uc.Tls.CA, pki.OtherCAPEM, 0o600)
		}
		uc.Tls.InsecureSkipVerify = u.Skip
		cfg.Upstreams = append(cfg.Upstreams, uc)
	}
	for i, ds := range rp.DomainSets {
		dc := router.DomainSetConfig{Tag: ds.Tag}
		for j, f := range ds.Files {
			fp := filepath.Join(dir, fmt.Sprintf("ds%d_%d.txt", i, j))
			body := strings.Join(f, "\n") + "\n"
			for _, k := range ds.NoFinalNewline {
				if k == j {
					body = strings.TrimSuffix(body, "\n")
				}
			}
			os.WriteFile(fp, []byte(body), 0o600)
			dc.Files = append(dc.Files, fp)
		}
		cfg.DomainSets = append(cfg.DomainSets, dc)
	}
	for _, r := range rp.Rules {
		cfg.Rules = append(cfg.Rules, router.RuleConfig{Reverse: r.Reverse, Domain: r.Domain, Reject: r.Reject, Forward: r.Forward})
	}
	cfg.Cache.MemSize = rp.Cache.MemSize
	cfg.Cache.MaximumTTL = rp.Cache.MaxTTL
	cfg.Metrics.Addr = rp.MetricsAddr
	cfg.Log.Queries = rp.LogQueries
	if rp.Cache.Redis != nil {
		cfg.Cache.Redis = "redis://10.2.0.1:6379"
	}
	if len(rp.Cache.IpMarker) > 0 {
		var sb strings.Builder
		sb.WriteString("# generated\n\n")
		for _, r := range rp.Cache.IpMarker {
			fmt.Fprintf(&sb, "%s,%s,%s\n", r.Start, r.End, r.Label)
		}
		fp := filepath.Join(dir, "ipmarker.txt")
		os.WriteFile(fp, []byte(sb.String()), 0o600)
		cfg.Cache.IpMarker = fp
	}
	cfg.ECS.Enabled = rp.ECS
	cfg.Limiter.GlobalLimit = rp.Limiter.Global
	cfg.Limiter.Client.Limit = rp.Limiter.Limit
	cfg.Limiter.Client.Burst = rp.Limiter.Burst
	cfg.Limiter.Client.V4Mask = rp.Limiter.V4Mask
	cfg.Limiter.Client.V6Mask = rp.Limiter.V6Mask
	return cfg, nil
}

func netPolicies(w *vnet.World, s *sim.Sim, ns *plan.NetSpec, conns []plan.ClientConn, ups []plan.UpstreamSpec) {
	connByLabel := map[string]*plan.ClientConn{}
	for i := range conns {
		connByLabel["C"+strconv.Itoa(conns[i].Idx)] = &conns[i]
	}
	clLat := [2]time.Duration{us(ns.ClientLatUs[0]), us(ns.ClientLatUs[1])}
	upLat := [2]time.Duration{us(ns.UpLatUs[0]), us(ns.UpLatUs[1])}
	isClient := func(id string) (*plan.ClientConn, bool) {
		if !strings.HasPrefix(id, "C") {
			return nil, false
		}
		base := id
		if i := strings.IndexAny(id, ".>"); i >= 0 {
			base = id[:i]
		}
		return connByLabel[base], true
	}
	w.StreamPolicyFn = func(li vnet.LinkInfo, aToB bool) vnet.StreamPolicy {
		if cc, ok := isClient(li.ID); ok {
			p := vnet.StreamPolicy{LatMin: clLat[0], LatMax: clLat[1]}
			if cc != nil && aToB {
				p.SegMode, p.SegBytes = cc.SegMode, cc.SegBytes
			}
			return p
		}
		p := vnet.StreamPolicy{LatMin: upLat[0], LatMax: upLat[1]}
		if !aToB {
			p.SegMode = ns.UpSegMode
		}
		return p
	}
	w.DgramPolicyFn = func(li vnet.LinkInfo) vnet.DgramPolicy {
		if _, ok := isClient(li.ID); ok || strings.HasPrefix(li.ID, "U") && li.Owner == vnet.OwnerProxy && !isUpHost(ups, li.Dst.Addr()) {
			return vnet.DgramPolicy{LatMin: clLat[0], LatMax: clLat[1], Drop: ns.ClDrop, Dup: ns.ClDup}
		}
		return vnet.DgramPolicy{LatMin: upLat[0], LatMax: upLat[1], Drop: ns.UpDrop, Dup: ns.UpDup, Corrupt: ns.UpCorrupt}
	}
	if len(ns.Connect) > 0 {
		byHost := map[string]string{}
		for _, u := range ups {
			if a, ok := ns.Connect[u.Tag]; ok {
				byHost[u.Host] = a
			}
		}
		w.ConnectFn = func(li vnet.LinkInfo) (vnet.ConnectAction, time.Duration) {
			switch byHost[li.Dst.Addr().String()] {
			case "refuse":
				return vnet.ConnectRefuse, 0
			case "blackhole":
				return vnet.ConnectBlackhole, 0
			}
			return vnet.ConnectOK, 0
		}
	}
	if len(ns.Partitions) > 0 {
		w.Partitioned = func(a, b netip.Addr) bool {
			now := s.Now()
			for _, p := range ns.Partitions {
				if now >= us(p.FromUs) && now < us(p.ToUs) && (a.String() == p.Host || b.String() == p.Host) {
					return true
				}
			}
			return false
		}
	}
}

func isUpHost(ups []plan.UpstreamSpec, a netip.Addr) bool {
	for _, u := range ups {
		if u.Host == a.String() {
			return true
		}
	}
	return false
}

// RunRouter executes a router-family plan.
func RunRouter(t *testing.T, p *plan.Plan, keepLog int) *Result {
	rp := p.Router
	res := &Result{Seed: p.Seed, Family: p.Family, Focus: p.Focus, Arm: p.Arm, Stats: map[string]int64{}}
	probe := func(tag string) {
		if os.Getenv("SIM_RAND_DEBUG") != "" {
			println("RANDPROBE", tag, mrand.Uint64())
		}
	}
	probe("begin")
	pki := peers.NewPKI()
	probe("pki")
	// Not os.MkdirTemp: its name comes from the (pinned) runtime random
	// stream, so concurrent simulator processes would collide and retry,
	// consuming a load-dependent number of random draws.
	dir := filepath.Join(os.TempDir(), fmt.Sprintf("verifsim-%d", os.Getpid()))
	os.RemoveAll(dir)
	err := os.Mkdir(dir, 0o700)
	if err != nil {
		res.Note = "tempdir: " + err.Error()
		return res
	}
	defer os.RemoveAll(dir)
	cfg, err := BuildConfig(rp, pki, dir)
	if err != nil {
		res.Note = "config: " + err.Error()
		return res
	}
	applyStartFault(rp, cfg, dir)
	probe("config")
	if p.Knobs.LogDebug {
		mlog.SetLvl(zerolog.DebugLevel)
	} else {
		// error-level lines reach the campaign driver through stderr (it
		// looks for the cache's "invalid cache data" report)
		mlog.SetLvl(zerolog.ErrorLevel)
	}
	var h *History
	func() {
		defer func() {
			if r := recover(); r != nil {
				msg := fmt.Sprint(r)
				if strings.Contains(msg, "deadlock") && strings.Contains(msg, "bubble") {
					res.Stats["bubble_leftover_goroutines"] = 1
					return
				}
				panic(r)
			}
		}()
		synctest.Test(t, func(t *testing.T) {
			probe("bubble")
			s := sim.New(p.Seed, keepLog)
			w := vnet.NewWorld(s)
			installKnobs(s, p.Knobs)
			defer uninstallKnobs()
			netPolicies(w, s, &rp.Net, rp.Conns, rp.Upstreams)
			if rs := rp.Cache.Redis; rs != nil {
				rc := vredis.Config{
					Now:     s.Now,
					Latency: func(n uint64) time.Duration { return s.Dur("redis-lat", n, us(rs.LatUs[0]), us(rs.LatUs[1])) },
					Log:     func(kind, detail string) { s.Logf(kind, "%s", detail) },
					WriteDelay: func(n uint64) time.Duration {
						if p.Knobs.YieldDensity == 0 {
							return 0
						}
						return s.Dur("redis-wr", n, 0, 40_000)
					},
					Report: func(detail string) {
						s.Fail("C20", "released-memory-in-redis-command", "%s", detail)
						s.Fail("C07", "cache-entry-corrupt", "the second-level cache was sent a %s", detail)
					},
				}
				if rs.SlowGetUs[1] > 0 {
					rc.GetLatency = func(n uint64) time.Duration {
						return s.Dur("redis-getlat", n, us(rs.SlowGetUs[0]), us(rs.SlowGetUs[1]))
					}
				}
				for _, d := range rs.DownUs {
					rc.Down = append(rc.Down, vredis.Window{From: us(d[0]), To: us(d[1])})
				}
				for _, f := range rs.FlushUs {
					rc.FlushAt = append(rc.FlushAt, us(f))
				}
				vredis.Install(rc)
				defer vredis.Uninstall()
			}
			h = &History{P: p, RP: rp, S: s, Ups: map[string]*peers.UpServer{}, Sets: map[string]*refSet{}}
			for i := range rp.DomainSets {
				h.Sets[rp.DomainSets[i].Tag] = newRefSet(&rp.DomainSets[i])
			}
			for _, us := range rp.Upstreams {
				if us.Host == "" {
					continue
				}
				if n := hostNameOf(us.Addr); n != "" {
					if a, err := netip.ParseAddr(us.Host); err == nil {
						w.AddHost(n, a)
					}
				}
				if _, dup := h.Ups[us.Tag]; dup {
					continue
				}
				u := peers.NewUpServer(s, w, p.Seed, us, rp.Tokens, pki)
				if err := u.Start(); err != nil {
					s.Logf("up_start_err", "%s %v", us.Tag, err)
					res.Note += "upstart:" + err.Error() + ";"
				}
				h.Ups[us.Tag] = u
				h.UpOrder = append(h.UpOrder, us.Tag)
			}
			if rp.StartFault != nil && rp.StartFault.Kind == "addr_in_use" {
				occupy(w, rp, rp.StartFault.Pos)
			}
			probe("upstreams")
			ctx, cancel := context.WithCancel(context.Background())
			r, err := router.VRun(ctx, cfg)
			probe("vrun")
			h.StartErr = err
			h.Started = err == nil
			s.Logf("router_start", "err=%v", err != nil)
			if os.Getenv("SIM_RAND_DEBUG") != "" {
				s.Logf("rand_probe", "%d", mrand.Uint64())
				vnet.RandProbe = mrand.Uint64
			}
			var cl *peers.Clients
			if err == nil {
				cl = &peers.Clients{S: s, W: w, PKI: pki, Servers: rp.Servers, Conns: rp.Conns, Ops: rp.Ops}
				cl.Start()
				go func() { cl.Wait(); s.Logf("clients_done", ""); s.Stop() }()
				if p.Knobs.GCEveryUs > 0 {
					var tick func()
					ngc := 0
					tick = func() {
						runtime.GC()
						s.Fault("gc")
						if ngc++; ngc < 150 {
							s.After(us(p.Knobs.GCEveryUs), "gc", tick)
						}
					}
					s.After(us(p.Knobs.GCEveryUs), "gc", tick)
				}
				if rp.CloseAtUs > 0 {
					s.After(us(rp.CloseAtUs), "router_close", func() {
						go func() {
							r.VClose(fmt.Errorf("sim close"))
							h.CloseReturned = true
							s.Logf("router_closed", "")
						}()
					})
				}
				s.Run(us(rp.HorizonUs))
				if s.Exhausted {
					res.Exhausted = true
				}
				if msg, ferr, ok := r.VFatal(); ok {
					s.Fail(p.Focus, "fatal-error", "router reported fatal error %q: %v", msg, ferr)
				}
				// orderly end: close the router, then everything else.
				closed := make(chan struct{})
				go func() { r.VClose(fmt.Errorf("end of run")); h.CloseReturned = true; close(closed) }()
				s.Settle(2 * time.Second)
				select {
				case <-closed:
				default:
					s.Fail("C18", "close-hangs", "router close did not return within 2s of fake time")
				}
			}
			cancel()
			// grace longer than every dial and I/O time-out in play.
			s.Settle(150 * time.Second)
			h.OpenAfterClose = w.OpenEndpoints(vnet.OwnerProxy)
			if n := vredis.OpenClients(); n > 0 {
				h.OpenAfterClose = append(h.OpenAfterClose, fmt.Sprintf("%d redis client connection(s)", n))
			}
			for _, tag := range h.UpOrder {
				h.Ups[tag].Stop()
			}
			s.Settle(40 * time.Second)
			if cl != nil {
				h.Ops, h.Conns = cl.OpRec, cl.CnRec
			}
			checkRouter(h)
			res.Violations = s.Violations()
			res.Events = s.Events()
			res.SimNs = int64(s.Now())
			res.LogHash = fmt.Sprintf("%016x", s.LogHash())
			res.SigHash = fmt.Sprintf("%016x", s.SigHash())
			res.Faults = s.Faults()
			res.Probes = s.Probes()
			fillStats(h, res)
			if keepLog != 0 {
				res.Sample = s.LogLines()
			}
		})
	}()
	return res
}

func hostNameOf(addr string) string {
	a := addr
	if i := strings.Index(a, "://"); i >= 0 {
		a = a[i+3:]
	}
	if i := strings.IndexByte(a, '/'); i >= 0 {
		a = a[:i]
	}
	if strings.HasPrefix(a, "[") {
		return ""
	}
	if i := strings.LastIndexByte(a, ':'); i >= 0 {
		a = a[:i]
	}
	if _, err := netip.ParseAddr(a); err == nil {
		return ""
	}
	return a
}

func fillStats(h *History, res *Result) {
	nresp := 0
	for _, o := range h.Ops {
		nresp += len(o.Resps)
	}
	res.Stats["ops"] = int64(len(h.Ops))
	res.Stats["responses"] = int64(nresp)
	nq := 0
	for _, u := range h.Ups {
		nq += len(u.Queries)
	}
	res.Stats["upstream_queries"] = int64(nq)
	nf := int64(0)
	for k, v := range res.Faults {
		if k != "yield" && k != "gc" {
			nf += v
		}
	}
	res.Nontrivial = nresp > 0 && (nf > 0 || res.Faults["yield"] > 0 || nq > 1)
}

// queryOf parses the query an op sent.
func queryOf(o *peers.OpRecord) *refdns.Msg {
	if o.Query == nil {
		return nil
	}
	m, err := refdns.Parse(o.Query)
	if err != nil {
		return nil
	}
	return m
}
