package scen

import (
	"bytes"
	"fmt"
	"github.com/IrineSistiana/mosproxy/internal/dnsmsg"
	"net/netip"
	"sort"
	"strings"
	"time"

	"github.com/IrineSistiana/mosproxy/verifsim/peers"
	"github.com/IrineSistiana/mosproxy/verifsim/plan"
	"github.com/IrineSistiana/mosproxy/verifsim/refdns"
)

const (
	requestDeadline = 6 * time.Second
	slack           = 1 * time.Second
)

type opView struct {
	o         *peers.OpRecord
	cc        *plan.ClientConn
	cr        *peers.ConnRecord
	srv       *plan.ServerSpec
	q         *refdns.Msg
	lower     refdns.Name
	supported bool
	outcome   ruleOutcome
	resps     []*refdns.Msg
	tok       *plan.TokenSpec
	keptOpen  time.Duration
	isHTTP    bool
	isStream  bool
	hadEDNS   bool
	srcSeen   netip.Addr // client address as the proxy knows it (invalid = unknown)
}

func buildViews(h *History) []*opView {
	var vs []*opView
	for _, o := range h.Ops {
		if !o.Sent {
			continue
		}
		v := &opView{o: o}
		v.cc = &h.RP.Conns[o.Op.Conn]
		v.cr = h.Conns[o.Op.Conn]
		v.srv = &h.RP.Servers[v.cc.Server]
		v.isHTTP = v.srv.Proto == "http" || v.srv.Proto == "https" || v.srv.Proto == "fasthttp"
		v.isStream = v.srv.Proto == "tcp" || v.srv.Proto == "tls" || v.srv.Proto == "gnet"
		v.q = queryOf(o)
		v.tok = h.RP.Tokens[o.Op.Token]
		end := v.cr.ClosedAt
		if v.cr.PeerGoneAt != 0 && (end == 0 || v.cr.PeerGoneAt < end) {
			end = v.cr.PeerGoneAt
		}
		v.keptOpen = end - o.SentAt
		if v.q != nil && o.Op.Raw == nil {
			v.hadEDNS = len(v.q.OPTs()) > 0
			v.supported = !v.q.Has(refdns.BitQR) && v.q.Has(refdns.BitRD) && v.q.Opcode() == 0 && len(v.q.Q) == 1
			if len(v.q.Q) > 0 {
				v.lower = v.q.Q[0].Name.Lower()
				v.outcome = evalRules(h.RP, h.Sets, v.lower)
			}
		}
		for _, r := range o.Resps {
			m, err := refdns.Parse(r.B)
			if err != nil {
				m = nil
			}
			v.resps = append(v.resps, m)
		}
		v.srcSeen = clientAddrSeen(v)
		vs = append(vs, v)
	}
	return vs
}

// clientAddrSeen is the address the proxy attributes to the client.
func clientAddrSeen(v *opView) netip.Addr {
	if strings.HasPrefix(v.srv.Listen, "@") {
		if v.isHTTP && v.srv.ClientAddrHeader != "" && v.cc.XFF != "" {
			a, err := netip.ParseAddr(strings.TrimSpace(strings.Split(v.cc.XFF, ",")[0]))
			if err == nil {
				return a
			}
		}
		return netip.Addr{}
	}
	if v.isHTTP && v.srv.ClientAddrHeader != "" {
		if v.cc.XFF == "" {
			return netip.Addr{}
		}
		a, err := netip.ParseAddr(strings.TrimSpace(strings.Split(v.cc.XFF, ",")[0]))
		if err == nil {
			return a
		}
		return netip.Addr{}
	}
	a, err := netip.ParseAddr(v.cc.Src)
	if err != nil {
		return netip.Addr{}
	}
	return a
}

func limiterOn(rp *plan.RouterPlan) bool { return rp.Limiter.Global > 0 || rp.Limiter.Limit > 0 }

func allActs(t *plan.TokenSpec, pred func(string) bool) bool {
	if t == nil || len(t.Acts) == 0 {
		return pred("reply")
	}
	for _, a := range t.Acts {
		if !pred(a.Kind) {
			return false
		}
	}
	return true
}

func failingAct(k string) bool {
	switch k {
	case "silent", "garbage", "fin", "rst", "half_frame", "http_500":
		return true
	}
	return false
}

func replyAct(k string) bool {
	return k == "reply" || k == "" || k == "reply_twice" || k == "reply_many"
}

// tokenUses counts ops per token.
func tokenUses(h *History) map[string]int {
	m := map[string]int{}
	for _, o := range h.Ops {
		m[o.Op.Token]++
	}
	return m
}

func checkRouter(h *History) {
	if !h.Started {
		checkStartFailure(h)
		return
	}
	if h.RP.StartFault != nil {
		h.S.Fail(startFaultProperty(h.RP.StartFault.Kind), "bad-config-accepted", "start-up fault %q at %d was accepted: router started", h.RP.StartFault.Kind, h.RP.StartFault.Pos)
	}
	vs := buildViews(h)
	if h.P.Focus == "C17" && h.P.Arm == "pair" {
		// upstreams that share a server: only the authentication oracle applies
		checkC17pair(h, vs)
		checkC18router(h)
		return
	}
	uses := tokenUses(h)
	checkC03(h, vs, uses)
	checkContent(h, vs) // C02 C04 C09
	checkC10(h, vs)
	checkC12(h, vs)
	checkC13(h, vs)
	checkCache(h, vs) // C07 C08 C19
	checkC15e2e(h, vs)
	checkC17mtls(h, vs)
	checkC18router(h)
	checkC01(h, vs)
	checkWirePoison(h)
}

// checkWirePoison: no response a client received carries the patterns that
// the pool facades write into released buffers and objects (C20).
func checkWirePoison(h *History) {
	for _, o := range h.Ops {
		for _, r := range o.Resps {
			if n := peers.PoisonRun(r.B); n >= 8 {
				h.S.Fail("C20", "released-memory-on-the-wire", "op %d: the response contains %d consecutive bytes of the release poison pattern: %x", o.Op.Idx, n, trunc(r.B, 64))
			}
			if peers.PoisonObject(r.B) {
				h.S.Fail("C20", "released-object-on-the-wire", "op %d: the response was built from a released pooled object (poison values): %x", o.Op.Idx, trunc(r.B, 64))
			}
		}
	}
}

func startFaultProperty(kind string) string {
	switch kind {
	case "dup_tag", "dup_tag_quic", "dup_set_tag", "unknown_upstream_tag", "unknown_domain_tag", "missing_tag", "missing_addr":
		return "C10"
	}
	return "C18"
}

func checkStartFailure(h *History) {
	if h.RP.StartFault == nil {
		h.S.Fail(h.P.Focus, "start-failed", "router failed to start on a valid configuration: %v", h.StartErr)
		return
	}
	// A failed start must leave nothing open.
	if len(h.OpenAfterClose) > 0 {
		h.S.Fail("C18", "leak-after-failed-start", "start-up failed (%v) but the proxy still owns: %s", h.StartErr, strings.Join(h.OpenAfterClose, "; "))
	}
	h.S.Probe("start_fault_" + h.RP.StartFault.Kind)
}

// ---- C03 ----

func checkC03(h *History, vs []*opView, uses map[string]int) {
	if limiterOn(h.RP) || h.RP.Net.ClDrop > 0 || h.RP.Net.ClDup > 0 || h.RP.CloseAtUs > 0 {
		return
	}
	garbageConn := map[int]bool{}
	for _, v := range vs {
		if v.o.Op.Raw != nil || v.q == nil {
			garbageConn[v.cc.Idx] = true
		}
	}
	for _, v := range vs {
		if v.q == nil || v.o.Op.Raw != nil || v.q.Has(refdns.BitQR) {
			continue
		}
		if v.srv.MTLS || v.cr.DialErr != "" {
			continue
		}
		if v.isStream && garbageConn[v.cc.Idx] {
			continue // the proxy may close a stream that carried garbage
		}
		if v.o.Op.HTTPVariant != "" {
			continue
		}
		op := v.o.Op
		name := fmt.Sprintf("op %d (%s, token %s)", op.Idx, v.srv.Proto, op.Token)
		// count
		okResps := 0
		for _, r := range v.o.Resps {
			if !v.isHTTP || r.Status == 200 {
				okResps++
			}
		}
		if okResps == 0 {
			if v.isHTTP {
				if len(v.o.Resps) > 0 {
					h.S.Fail("C03", "no-response", "%s: HTTP status %d instead of a DNS response", name, v.o.Resps[0].Status)
				} else if v.o.Err != "" && v.keptOpen >= requestDeadline+slack {
					h.S.Fail("C03", "no-response", "%s: HTTP request failed: %s", name, v.o.Err)
				}
				continue
			}
			// how long the client itself kept the transport (it closes after its
			// last query plus a linger time, whatever the proxy does)
			clientKept := v.cr.ClosedAt - v.o.SentAt
			gone := v.cr.PeerGoneAt
			switch {
			case gone != 0 && gone <= v.o.SentAt || v.o.Err != "":
				// sent into a transport that the proxy had closed already
			case clientKept < requestDeadline+slack+500*time.Millisecond:
			case gone != 0 && gone < v.o.SentAt+requestDeadline+slack:
				// the listener's idle time-out (>= 8 s here) cannot be the reason:
				// the client wrote this query less than the request deadline ago
				h.S.Fail("C03", "transport-closed-by-proxy", "%s: the proxy closed the transport %v after the query without answering (the client kept it for %v)", name, gone-v.o.SentAt, clientKept)
			default:
				h.S.Fail("C03", "no-response", "%s: no response although the transport stayed open %v", name, v.keptOpen)
			}
			continue
		}
		if okResps > 1 {
			h.S.Fail("C03", "duplicate-response", "%s: %d responses", name, okResps)
		}
		r0 := v.o.Resps[0]
		if lat := r0.At - v.o.SentAt; lat > requestDeadline+slack+us(2*h.RP.Net.ClientLatUs[1]) {
			h.S.Fail("C03", "late-response", "%s: response after %v", name, lat)
		}
		m := v.resps[0]
		if m == nil {
			h.S.Fail("C03", "undecodable-response", "%s: response does not decode: %x", name, trunc(r0.B, 700))
			continue
		}
		h.S.Probe("c03_checked")
		if m.ID != v.q.ID {
			h.S.Fail("C03", "id", "%s: response id %d, query id %d", name, m.ID, v.q.ID)
		}
		if !m.Has(refdns.BitQR) {
			h.S.Fail("C03", "qr", "%s: QR not set", name)
		}
		if m.Opcode() != v.q.Opcode() {
			h.S.Fail("C03", "opcode", "%s: opcode %d, query opcode %d", name, m.Opcode(), v.q.Opcode())
		}
		if !m.Has(refdns.BitRA) {
			h.S.Fail("C03", "ra", "%s: RA not set", name)
		}
		if m.Has(refdns.BitRD) != v.q.Has(refdns.BitRD) {
			h.S.Fail("C03", "rd", "%s: RD %v, query RD %v", name, m.Has(refdns.BitRD), v.q.Has(refdns.BitRD))
		}
		if len(m.Q) > 1 {
			h.S.Fail("C03", "question-count", "%s: %d questions in response", name, len(m.Q))
		} else if len(m.Q) == 1 {
			if len(v.q.Q) == 0 {
				h.S.Fail("C03", "question", "%s: response has a question, query had none", name)
			} else if q0 := v.q.Q[0]; !m.Q[0].Name.EqualFold(q0.Name) || m.Q[0].Type != q0.Type || m.Q[0].Class != q0.Class {
				h.S.Fail("C03", "question", "%s: response question %s/%d/%d, query %s/%d/%d", name, m.Q[0].Name, m.Q[0].Type, m.Q[0].Class, q0.Name, q0.Type, q0.Class)
			}
		}
		switch {
		case !v.supported:
			h.S.Probe("c03_notimp")
			if m.Rcode() != 4 {
				h.S.Fail("C03", "notimp", "%s: unsupported query (rd=%v opcode=%d nq=%d) answered rcode %d, want NOTIMP", name, v.q.Has(refdns.BitRD), v.q.Opcode(), len(v.q.Q), m.Rcode())
			}
		case v.outcome.Kind == "refused":
			h.S.Probe("c03_refused")
			if m.Rcode() != 5 {
				h.S.Fail("C03", "refused", "%s: no rule serves %s, rcode %d, want REFUSED", name, v.lower, m.Rcode())
			}
		case v.outcome.Kind == "forward":
			cacheMayServe := h.RP.Cache.MemSize > 0 && uses[op.Token] > 1
			if allActs(v.tok, failingAct) && !cacheMayServe {
				h.S.Probe("c03_servfail")
				if m.Rcode() != 2 {
					h.S.Fail("C03", "servfail", "%s: upstream %s never answers (acts %v), rcode %d, want SERVFAIL", name, v.outcome.Forward, actKinds(v.tok), m.Rcode())
				}
			}
		}
	}
}

func actKinds(t *plan.TokenSpec) []string {
	var k []string
	if t != nil {
		for _, a := range t.Acts {
			k = append(k, a.Kind)
		}
	}
	return k
}

func trunc(b []byte, n int) []byte {
	if len(b) > n {
		return b[:n]
	}
	return b
}

// ---- C02 / C04 / C09: content against the regenerated original ----

// originalFor regenerates the upstream message behind a response, using the
// metadata the response carries, cross-checked with the upstream's log.
func originalFor(h *History, v *opView, m *refdns.Msg) (orig *refdns.Msg, meta peers.Meta, status string) {
	meta, ok := peers.DecodeMeta(m)
	if !ok {
		return nil, meta, "nometa"
	}
	u := h.Ups[meta.Up]
	if u == nil {
		return nil, meta, "unknown-upstream"
	}
	if len(m.Q) != 1 {
		return nil, meta, "noquestion"
	}
	qn := m.Q[0].Name.Lower()
	wantKey := peers.KeyOf(qn, meta.Class, meta.Type)
	found := false
	arrival := 0
	for _, r := range u.Replies {
		if r.Token == meta.Token && r.Serial == meta.Serial && r.Key == wantKey && (r.Kind == "reply" || r.Kind == "dup" || r.Kind == "wrong_id" || r.Kind == "half" || r.Kind == "tc") {
			found = true
			arrival = r.Arrival
			break
		}
	}
	if !found {
		return nil, meta, "not-in-upstream-log"
	}
	spec := &u.DefaultAns
	if t := h.RP.Tokens[meta.Token]; t != nil {
		spec = t.SpecFor(arrival)
	}
	orig = peers.Generate(h.P.Seed, meta.Up, meta.Token, qn, meta.Class, meta.Type, spec, meta.Serial, meta.ECS, meta.GenNs)
	return orig, meta, ""
}

func stripOPT(rs []refdns.RR) []refdns.RR {
	var o []refdns.RR
	for _, r := range rs {
		if r.Type != refdns.TypeOPT {
			o = append(o, r)
		}
	}
	return o
}

// isSubsequence reports whether got is an order-preserving subsequence of
// want, comparing records without TTL; it returns the matched indexes.
func isSubsequence(got, want []refdns.RR) ([]int, bool) {
	idx := make([]int, 0, len(got))
	j := 0
	for _, g := range got {
		for j < len(want) && !g.EqualNoTTL(want[j]) {
			j++
		}
		if j == len(want) {
			return nil, false
		}
		idx = append(idx, j)
		j++
	}
	return idx, true
}

func sameMultiset(a, b []refdns.RR) bool {
	if len(a) != len(b) {
		return false
	}
	used := make([]bool, len(b))
outer:
	for _, x := range a {
		for i, y := range b {
			if !used[i] && x.EqualNoTTL(y) {
				used[i] = true
				continue outer
			}
		}
		return false
	}
	return true
}

type delivered struct {
	v    *opView
	m    *refdns.Msg
	raw  []byte
	at   time.Duration
	meta peers.Meta
	orig *refdns.Msg
}

func sizeLimit(v *opView) int {
	if v.srv.Proto == "udp" || v.srv.Proto == "" {
		lim := 512
		if v.q != nil {
			for _, o := range v.q.Ar {
				if o.Type == refdns.TypeOPT {
					lim = int(o.Class) // the last OPT wins in the listener; generator sends one
				}
			}
		}
		if lim < 512 {
			lim = 512
		}
		return lim
	}
	return 65535
}

func checkContent(h *History, vs []*opView) {
	if h.RP.CloseAtUs > 0 {
		return // responses cut short by closing the router are C18's business
	}
	firstSeen := map[string]bool{} // up/token/serial already delivered to some client
	var ds []delivered
	for _, v := range vs {
		for i, r := range v.o.Resps {
			if v.isHTTP && r.Status != 200 {
				continue
			}
			ds = append(ds, delivered{v: v, m: v.resps[i], raw: r.B, at: r.At})
		}
	}
	sort.SliceStable(ds, func(i, j int) bool { return ds[i].at < ds[j].at })
	// C04: a response that matches no query of its transport (unknown id) and
	// carries an answer generated for a question that nobody asked on that
	// transport is another client's answer delivered here
	asked := map[int]map[string]bool{}
	for _, o := range h.Ops {
		if asked[o.Op.Conn] == nil {
			asked[o.Op.Conn] = map[string]bool{}
		}
		asked[o.Op.Conn][o.Op.Token] = true
	}
	for _, cr := range h.Conns {
		if cr == nil || cr.Conn == nil {
			continue
		}
		// a stream connection that carried nothing but well-formed queries gets
		// nothing but responses to them: a frame under an id that was never
		// sent there consists of bytes made for something else (what did not fit
		// an earlier frame, another connection's response)
		if (cr.Proto == "tcp" || cr.Proto == "tls" || cr.Proto == "gnet") && len(cr.Unmatched) > 0 && h.RP.CloseAtUs == 0 {
			clean := true
			for _, o := range h.Ops {
				if o.Op.Conn == cr.Conn.Idx && (o.Op.Raw != nil || o.Op.NQ != 1 || o.Op.Bits&refdns.BitQR != 0) {
					clean = false
				}
			}
			if clean {
				h.S.Fail("C04", "stray-frame", "conn %d (%s): %d frames under ids that were never sent on this connection (first: %d bytes %x): data that belongs to no response of this connection's queries", cr.Conn.Idx, cr.Proto, len(cr.Unmatched), len(cr.Unmatched[0].B), trunc(cr.Unmatched[0].B, 24))
			}
		}
		for _, r := range cr.Unmatched {
			um, err := refdns.Parse(r.B)
			if err != nil || um == nil {
				continue
			}
			if meta, ok := peers.DecodeMeta(um); ok && !asked[cr.Conn.Idx][meta.Token] {
				h.S.Fail("C04", "misdelivered-response", "conn %d (%s): a response under id %d that was never sent on this transport carries the answer generated for token %s (upstream %s serial %d): another query's answer", cr.Conn.Idx, cr.Proto, um.ID, meta.Token, meta.Up, meta.Serial)
			}
		}
	}
	for _, d := range ds {
		v, m := d.v, d.m
		op := v.o.Op
		name := fmt.Sprintf("op %d (%s, token %s)", op.Idx, v.srv.Proto, op.Token)
		limit := sizeLimit(v)
		// C09: size
		if len(d.raw) > limit {
			h.S.Fail("C09", "size", "%s: response of %d bytes exceeds the limit %d", name, len(d.raw), limit)
		}
		if m == nil {
			if v.q != nil && op.Raw == nil {
				_, err := refdns.Parse(d.raw)
				h.S.Fail("C09", "malformed", "%s: response does not decode cleanly (%v): %d bytes %x", name, err, len(d.raw), trunc(d.raw, 64))
				// every response is the proxy's own encoding of a message it
				// holds: one that an independent decoder rejects is also a codec
				// failure, unless it was cut to a size limit (C09's business)
				if len(d.raw) >= 12 && d.raw[2]&0x02 == 0 {
					h.S.Fail("C02", "encoded-undecodable", "%s: the proxy's encoding does not decode (%v): %d bytes %x", name, err, len(d.raw), trunc(d.raw, 64))
				}
			}
			continue
		}
		// what an independent decoder accepts, the proxy's own decoder and the
		// parser behind Go's resolver have to accept too (the latter only for
		// content it takes at all, see the codec arm)
		if v.q != nil && op.Raw == nil {
			if m2, err := dnsmsg.UnpackMsg(d.raw); err != nil {
				h.S.Fail("C02", "self-undecodable", "%s: the proxy's own decoder rejects the response (%v): %d bytes %x", name, err, len(d.raw), trunc(d.raw, 64))
			} else {
				dnsmsg.ReleaseMsg(m2)
			}
			if xnetParse(refdns.Pack(m, refdns.PackOpts{})) == nil {
				if err := xnetParse(d.raw); err != nil {
					h.S.Fail("C02", "encoded-undecodable", "%s: golang.org/x/net/dns/dnsmessage rejects the response (%v): %d bytes %x", name, err, len(d.raw), trunc(d.raw, 64))
				}
			}
		}
		if v.q != nil && op.Raw == nil && (!v.supported || v.outcome.Kind != "forward") {
			// never forwarded: whatever generated answer it carries was made for someone else
			if meta, ok := peers.DecodeMeta(m); ok && meta.Token != op.Token {
				h.S.Fail("C04", "foreign-answer", "%s (not forwarded): answer was generated for token %s (upstream %s serial %d)", name, meta.Token, meta.Up, meta.Serial)
			}
		}
		if v.q == nil || op.Raw != nil || !v.supported || v.outcome.Kind != "forward" || m.Rcode() == 2 && len(m.An)+len(m.Ns)+len(stripOPT(m.Ar)) == 0 {
			continue
		}
		nrec := len(m.An) + len(m.Ns) + len(stripOPT(m.Ar))
		orig, meta, st := originalFor(h, v, m)
		if st == "nometa" {
			// no metadata in the response: every record must still come from some
			// generation for this op's own key by the selected upstream.
			u := h.Ups[v.outcome.Forward]
			if nrec == 0 {
				// not a single record left (the one that carries the metadata
				// included) in a NOERROR response: when everything the upstream
				// ever said about this question had records and would have fitted
				// written out in full, records were omitted without need (C09)
				if m.Rcode() == 0 && u != nil && v.tok != nil && len(m.Q) == 1 {
					n, all := 0, true
					for _, rp := range u.Replies {
						if rp.Token != op.Token || rp.Serial == 0 || rp.At > d.at || rp.Key != peers.KeyOf(v.lower, m.Q[0].Class, m.Q[0].Type) {
							continue
						}
						if rp.Kind != "reply" && rp.Kind != "dup" {
							all = false
							continue
						}
						cand := peers.Generate(h.P.Seed, u.Spec.Tag, op.Token, v.lower, m.Q[0].Class, m.Q[0].Type, v.tok.SpecFor(rp.Arrival), rp.Serial, "", 0)
						n++
						// (the metadata record and an ECS echo are not in cand: 300 octets cover them)
						if cand.Rcode() != 0 || len(cand.An)+len(cand.Ns)+len(stripOPT(cand.Ar)) == 0 || refdns.UncompressedLen(cand)+300 > limit {
							all = false
						}
					}
					if n > 0 && all {
						h.S.Probe("c09_recordless_checked")
						h.S.Fail("C09", "needless-truncation", "%s: the response has no records at all (TC=%v, %d bytes, limit %d) although each of the %d answers upstream %s gave for this question has records and fits the limit written out in full", name, m.Has(refdns.BitTC), len(d.raw), limit, n, v.outcome.Forward)
					}
				}
				continue
			}
			matched := false
			if u != nil {
				spec := &u.DefaultAns
				if v.tok != nil {
					spec = &v.tok.Ans
				}
				for _, rp := range u.Replies {
					if rp.Token != op.Token || rp.Serial == 0 {
						continue
					}
					// GenNs/ECS unknown without meta: only non-meta records are compared
					cand := peers.Generate(h.P.Seed, u.Spec.Tag, op.Token, v.lower, m.Q[0].Class, m.Q[0].Type, spec, rp.Serial, "", 0)
					if recordsFrom(m, cand) {
						matched = true
						break
					}
				}
			}
			if !matched {
				h.S.Fail("C04", "foreign-data", "%s: response carries records that the selected upstream never produced for this question: %s", name, summarize(m))
			}
			continue
		}
		if meta.Token != op.Token {
			h.S.Fail("C04", "foreign-answer", "%s: answer was generated for token %s (upstream %s serial %d)", name, meta.Token, meta.Up, meta.Serial)
			continue
		}
		if st != "" {
			h.S.Fail("C04", "unattributable", "%s: answer metadata %+v: %s", name, meta, st)
			continue
		}
		if meta.Up != v.outcome.Forward {
			h.S.Fail("C10", "wrong-upstream-data", "%s: answer came from upstream %s, rule selects %s", name, meta.Up, v.outcome.Forward)
		}
		if len(v.q.Q) == 1 && (meta.Class != v.q.Q[0].Class || meta.Type != v.q.Q[0].Type) && nrec > 0 {
			// whatever the question section says: these records were produced for another question
			h.S.Fail("C04", "foreign-answer", "%s asked class %d type %d but the records were generated for class %d type %d (upstream %s serial %d)", name, v.q.Q[0].Class, v.q.Q[0].Type, meta.Class, meta.Type, meta.Up, meta.Serial)
			continue
		}
		if len(m.Q) != 1 || len(v.q.Q) != 1 || !m.Q[0].Name.EqualFold(v.q.Q[0].Name) || m.Q[0].Type != v.q.Q[0].Type || m.Q[0].Class != v.q.Q[0].Class {
			continue // C03 reports it (and C07 when it came from the cache)
		}
		if meta.Class != v.q.Q[0].Class || meta.Type != v.q.Q[0].Type {
			h.S.Fail("C04", "foreign-answer", "%s asked class %d type %d but the records were generated for class %d type %d (upstream %s serial %d)", name, v.q.Q[0].Class, v.q.Q[0].Type, meta.Class, meta.Type, meta.Up, meta.Serial)
			continue
		}
		h.S.Probe("content_checked")
		key := fmt.Sprintf("%s/%s/%d/%d/%d", meta.Up, meta.Token, meta.Class, meta.Type, meta.Serial)
		// fresh = relayed on the request path (the query was sent before the
		// upstream produced this serial); otherwise it came from the cache.
		fresh := !firstSeen[key]
		firstSeen[key] = true
		if rs := h.RP.Cache.Redis; rs != nil && rs.SlowGetUs[1] > 0 {
			// a lookup that takes seconds may come back with an entry that was
			// fetched (by a background refresh, say) after the query was sent:
			// "sent before the upstream saw the exchange" proves nothing then
			fresh = false
		}
		for _, rp := range h.Ups[meta.Up].Replies {
			if rp.Token == meta.Token && rp.Serial == meta.Serial && rp.Key == peers.KeyOf(v.lower, meta.Class, meta.Type) {
				// the requester sent its query before the upstream saw the
				// exchange, and is the only operation that can have caused it
				if v.o.SentAt > rp.QueryAt {
					fresh = false
				}
				for _, w := range vs {
					if w == v || w.q == nil || w.o.Op.Raw != nil || len(w.q.Q) != 1 || w.o.Op.Token != meta.Token || w.q.Q[0].Class != meta.Class || w.q.Q[0].Type != meta.Type {
						continue
					}
					if w.o.SentAt < rp.QueryAt && (len(w.o.Resps) == 0 || w.o.Resps[0].At > rp.QueryAt) {
						fresh = false
					}
				}
			}
		}
		oAn, oNs, oAr := orig.An, orig.Ns, stripOPT(orig.Ar)
		gAn, gNs, gAr := m.An, m.Ns, stripOPT(m.Ar)
		// C04: everything present must come from the original, in order.
		iAn, ok1 := isSubsequence(gAn, oAn)
		iNs, ok2 := isSubsequence(gNs, oNs)
		okAr := true
		if optLast(orig.Ar) {
			_, okAr = isSubsequence(gAr, oAr)
		} else {
			okAr = subMultiset(gAr, oAr)
		}
		if !ok1 || !ok2 || !okAr {
			h.S.Fail("C04", "content", "%s: records differ from what upstream %s generated for this question (serial %d): got %s want %s", name, meta.Up, meta.Serial, summarize(m), summarize(orig))
			continue
		}
		missing := len(gAn) < len(oAn) || len(gNs) < len(oNs) || len(gAr) < len(oAr)
		// C09: truncation
		uncompressed := refdns.UncompressedLen(orig)
		for _, o := range orig.Ar {
			if o.Type == refdns.TypeOPT {
				uncompressed -= len(o.Name) + 10 + len(o.Data)
			}
		}
		if v.hadEDNS {
			uncompressed += 11
		}
		if missing {
			h.S.Probe("c09_truncated")
			if !m.Has(refdns.BitTC) {
				h.S.Fail("C09", "tc-missing", "%s: %d of %d records omitted but TC is not set (limit %d, %d bytes sent)", name, (len(oAn)+len(oNs)+len(oAr))-(len(gAn)+len(gNs)+len(gAr)), len(oAn)+len(oNs)+len(oAr), limit, len(d.raw))
			}
			if v.hadEDNS && len(m.OPTs()) != 1 {
				h.S.Fail("C09", "opt-dropped", "%s: truncated response has %d OPT records, client sent one", name, len(m.OPTs()))
			}
			if uncompressed <= limit {
				h.S.Fail("C09", "needless-truncation", "%s: uncompressed size %d fits the limit %d but records were omitted", name, uncompressed, limit)
			}
			_ = iAn
			_ = iNs
		} else {
			if uncompressed <= limit {
				h.S.Probe("c09_fits")
			}
			if m.Has(refdns.BitTC) != orig.Has(refdns.BitTC) {
				h.S.Fail("C09", "tc-added", "%s: nothing omitted but TC=%v while upstream TC=%v", name, m.Has(refdns.BitTC), orig.Has(refdns.BitTC))
			}
			// C02: full fidelity
			bitsMask := uint16(refdns.BitAA | refdns.BitAD | refdns.BitCD | 0xF)
			if m.Bits&bitsMask != orig.Bits&bitsMask {
				h.S.Fail("C02", "header", "%s: header bits %04x, upstream sent %04x (mask %04x)", name, m.Bits, orig.Bits, bitsMask)
			}
			if fresh {
				h.S.Probe("c02_fresh_compared")
				for si, pr := range [][2][]refdns.RR{{gAn, oAn}, {gNs, oNs}} {
					for i := range pr[0] {
						if pr[0][i].TTL != pr[1][i].TTL {
							h.S.Fail("C02", "ttl", "%s: section %d record %d TTL %d, upstream sent %d (fresh answer)", name, si, i, pr[0][i].TTL, pr[1][i].TTL)
						}
					}
				}
			}
		}
	}
}

func optLast(ar []refdns.RR) bool {
	for i, r := range ar {
		if r.Type == refdns.TypeOPT && i != len(ar)-1 {
			return false
		}
	}
	return true
}

func subMultiset(got, want []refdns.RR) bool {
	used := make([]bool, len(want))
outer:
	for _, g := range got {
		for i, w := range want {
			if !used[i] && g.EqualNoTTL(w) {
				used[i] = true
				continue outer
			}
		}
		return false
	}
	return true
}

// recordsFrom: every non-meta record of m appears in cand.
func recordsFrom(m, cand *refdns.Msg) bool {
	in := func(r refdns.RR, s []refdns.RR) bool {
		for _, x := range s {
			if r.EqualNoTTL(x) {
				return true
			}
		}
		return false
	}
	isMeta := func(r refdns.RR) bool {
		return r.Type == refdns.TypeTXT && bytes.HasPrefix(r.Data[min(1, len(r.Data)):], []byte("m1|"))
	}
	for _, pr := range [][2][]refdns.RR{{m.An, cand.An}, {m.Ns, cand.Ns}, {stripOPT(m.Ar), stripOPT(cand.Ar)}} {
		for _, r := range pr[0] {
			if isMeta(r) {
				continue
			}
			// filler records of "tight" answers (root owner, TXT): their sizes
			// depend on the length of the metadata record, unknown here
			if r.Type == refdns.TypeTXT && r.Name.Equal(refdns.Root) {
				continue
			}
			if !in(r, pr[1]) {
				return false
			}
		}
	}
	return true
}

func summarize(m *refdns.Msg) string {
	var sb strings.Builder
	fmt.Fprintf(&sb, "[bits=%04x an=%d ns=%d ar=%d", m.Bits, len(m.An), len(m.Ns), len(m.Ar))
	n := 0
	for _, sec := range [][]refdns.RR{m.An, m.Ns, m.Ar} {
		for _, r := range sec {
			if n < 6 {
				sb.WriteString(" " + r.String())
			}
			n++
		}
	}
	sb.WriteString("]")
	return sb.String()
}
