package scen

import (
	"bytes"
	"fmt"
	"regexp"
	"strings"

	"github.com/IrineSistiana/mosproxy/verifsim/plan"
	"github.com/IrineSistiana/mosproxy/verifsim/refdns"
)

// refSet is the declarative domain-set semantics of property C11: a set of
// full names, a set of suffixes, a list of regular expressions.
type refSet struct {
	full   map[string]bool
	suffix map[string]bool // key: lower-cased wire name
	res    []*regexp.Regexp
	bad    string // first entry that must be rejected at load, if any
}

func parseEntryName(exp string) (refdns.Name, error) {
	exp = strings.TrimSuffix(exp, ".")
	if exp == "" {
		return refdns.Root, nil
	}
	var ls [][]byte
	for _, p := range strings.Split(exp, ".") {
		if len(p) == 0 {
			return nil, fmt.Errorf("empty label")
		}
		if len(p) > 63 {
			return nil, fmt.Errorf("label too long")
		}
		ls = append(ls, []byte(p))
	}
	n := refdns.NameFromLabels(ls...)
	if len(n) > 255 {
		return nil, fmt.Errorf("name too long")
	}
	return n.Lower(), nil
}

func newRefSet(spec *plan.DomainSetSpec) *refSet {
	s := &refSet{full: map[string]bool{}, suffix: map[string]bool{}}
	for _, f := range spec.Files {
		for _, line := range f {
			if i := strings.IndexByte(line, '#'); i >= 0 {
				line = line[:i]
			}
			line = string(bytes.TrimSpace([]byte(line)))
			if line == "" {
				continue
			}
			typ, exp := "", line
			if i := strings.IndexByte(line, ':'); i >= 0 {
				typ, exp = line[:i], line[i+1:]
			}
			switch typ {
			case "", "domain":
				n, err := parseEntryName(exp)
				if err != nil {
					s.bad = line
					return s
				}
				s.suffix[string(n)] = true
			case "full":
				n, err := parseEntryName(exp)
				if err != nil {
					s.bad = line
					return s
				}
				s.full[string(n)] = true
			case "regexp":
				re, err := regexp.Compile(exp)
				if err != nil {
					s.bad = line
					return s
				}
				s.res = append(s.res, re)
			default:
				s.bad = line
				return s
			}
		}
	}
	return s
}

// textForm is the dotted non-FQDN text form defined in the statement of C11.
func textForm(n refdns.Name) string {
	ls := n.Labels()
	if len(ls) == 0 {
		return "."
	}
	var sb strings.Builder
	for i, l := range ls {
		if i > 0 {
			sb.WriteByte('.')
		}
		for _, c := range l {
			switch {
			case ('a' <= c && c <= 'z') || ('A' <= c && c <= 'Z') || ('0' <= c && c <= '9') || c == '-':
				sb.WriteByte(c)
			case c == '.':
				sb.WriteString("\\.")
			case c == '\\':
				sb.WriteString("\\\\")
			default:
				fmt.Fprintf(&sb, "\\%03d", c)
			}
		}
	}
	return sb.String()
}

// match implements: full equals, or suffix on a label boundary, or regexp.
func (s *refSet) match(lower refdns.Name) bool {
	if s.full[string(lower)] {
		return true
	}
	for i := 0; i < len(lower); {
		if s.suffix[string(lower[i:])] {
			return true
		}
		l := int(lower[i])
		if l == 0 {
			break
		}
		i += 1 + l
	}
	if len(s.res) > 0 {
		t := textForm(lower)
		for _, re := range s.res {
			if re.MatchString(t) {
				return true
			}
		}
	}
	return false
}

// ruleOutcome is the reference evaluation of the rule list (C10).
type ruleOutcome struct {
	Kind    string // reject | forward | refused
	Rcode   int
	Forward string
	RuleIdx int
}

func evalRules(rp *plan.RouterPlan, sets map[string]*refSet, lower refdns.Name) ruleOutcome {
	for i, r := range rp.Rules {
		if r.Domain != "" {
			m := sets[r.Domain].match(lower)
			if r.Reverse {
				m = !m
			}
			if !m {
				continue
			}
		}
		if r.Reject > 0 {
			return ruleOutcome{Kind: "reject", Rcode: int(r.Reject), RuleIdx: i}
		}
		if r.Forward != "" {
			return ruleOutcome{Kind: "forward", Forward: r.Forward, RuleIdx: i}
		}
		return ruleOutcome{Kind: "refused", Rcode: 5, RuleIdx: i}
	}
	return ruleOutcome{Kind: "refused", Rcode: 5, RuleIdx: -1}
}
