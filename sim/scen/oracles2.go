package scen

import (
	"encoding/binary"
	"fmt"
	"net/netip"
	"strings"
	"time"

	"github.com/IrineSistiana/mosproxy/verifsim/peers"
	"github.com/IrineSistiana/mosproxy/verifsim/refdns"
)

// ---- C10: routing ----

func checkC10(h *History, vs []*opView) {
	// In C11-focused runs the rule list is trivial (one set decides between two
	// upstreams), so a routing mismatch is a domain-set matching mismatch.
	prop := "C10"
	if h.P.Focus == "C11" {
		prop = "C11"
	}
	// expected upstream per token (tokens may be shared by several ops with
	// the same name; collect all allowed upstreams for a token)
	allowed := map[string]map[string]bool{}
	lowerOf := map[string][]refdns.Name{} // a token may be used by several operations with different names
	for _, v := range vs {
		if v.q == nil || v.o.Op.Raw != nil || len(v.q.Q) == 0 {
			continue
		}
		tok := v.o.Op.Token
		if allowed[tok] == nil {
			allowed[tok] = map[string]bool{}
		}
		if v.supported && v.outcome.Kind == "forward" {
			allowed[tok][v.outcome.Forward] = true
			lowerOf[tok] = append(lowerOf[tok], v.lower)
		}
	}
	// every question a client sent that decodes at all (garbage included)
	askedQ := map[string]bool{}
	lenient := false // some input only the proxy's (more lenient) decoder accepts
	for _, v := range vs {
		if v.q == nil && v.o.Op.Raw != nil {
			lenient = true
		}
		if v.q != nil && len(v.q.Q) > 0 {
			for _, q := range v.q.Q {
				askedQ[fmt.Sprintf("%x/%d/%d", []byte(q.Name.Lower()), q.Type, q.Class)] = true
			}
		}
	}
	for _, tag := range h.UpOrder {
		u := h.Ups[tag]
		for _, q := range u.Queries {
			if !lenient && q.Decoded && q.Token == "" && q.NQ == 1 && !strings.HasPrefix(peersTokenOrG(q.Name), "g") && !askedQ[fmt.Sprintf("%x/%d/%d", []byte(q.Name.Lower()), q.Type, q.Class)] {
				// a name without a token label: still has to be some client's question
				h.S.Fail(prop, "question-nobody-asked", "upstream %s received a query for %s type %d class %d, which no client asked", tag, q.Name, q.Type, q.Class)
			}
			if !q.Decoded || q.Token == "" {
				continue
			}
			a, known := allowed[q.Token]
			if !known {
				// a question that no client asked (a token of a garbage operation aside)
				if !strings.HasPrefix(peersTokenOrG(q.Name), "g") {
					h.S.Fail(prop, "question-nobody-asked", "upstream %s received a query for %s type %d class %d, which no client asked", tag, q.Name, q.Type, q.Class)
				}
				continue
			}
			if !a[tag] {
				h.S.Fail(prop, "wrong-upstream", "upstream %s received token %s (name %s) which the rules do not route there (allowed: %v)", tag, q.Token, q.Name, keys(a))
				continue
			}
			h.S.Probe("c10_forward_checked")
			if prop == "C11" {
				if len(h.RP.Upstreams) > 1 && tag == h.RP.Upstreams[1].Tag {
					h.S.Probe("c11_matched")
				} else {
					h.S.Probe("c11_unmatched")
				}
			}
			if q.NQ != 1 {
				h.S.Fail("C10", "question-count", "upstream %s got %d questions for token %s", tag, q.NQ, q.Token)
			}
			if !q.Name.Equal(q.Name.Lower()) {
				h.S.Fail("C10", "not-lowercased", "upstream %s got name %s (not lower-cased)", tag, q.Name)
			}
			if want := lowerOf[q.Token]; len(want) > 0 {
				found := false
				for _, n := range want {
					if q.Name.Equal(n) {
						found = true
					}
				}
				if !found {
					h.S.Fail("C10", "name-changed", "upstream %s got name %s, clients asked %v", tag, q.Name, want)
				}
			}
			if q.Bits&refdns.BitRD == 0 {
				h.S.Fail("C10", "rd", "upstream %s got RD=0 for token %s", tag, q.Token)
			}
			if q.Bits&refdns.BitQR != 0 || (q.Bits>>11)&0xF != 0 {
				h.S.Fail("C10", "header", "upstream %s got header bits %04x for token %s", tag, q.Bits, q.Token)
			}
		}
	}
	// type/class of the forwarded question, and client-visible rcode of reject rules
	for _, v := range vs {
		if v.q == nil || v.o.Op.Raw != nil || !v.supported {
			continue
		}
		if v.outcome.Kind == "forward" {
			u := h.Ups[v.outcome.Forward]
			if u == nil {
				continue
			}
			// "sends exactly that question to that rule's upstream (unless its
			// cache already holds the answer)": an upstream-generated answer to
			// a question that this upstream never received, in any exchange of
			// the run, came out of a cache that cannot hold it
			sent := false
			for _, q := range u.Queries {
				if q.Decoded && q.Token == v.o.Op.Token && len(v.q.Q) == 1 && q.Type == v.q.Q[0].Type && q.Class == v.q.Q[0].Class {
					sent = true
				}
			}
			if !sent && len(v.q.Q) == 1 {
				for i, m := range v.resps {
					if m == nil || v.isHTTP && v.o.Resps[i].Status != 200 {
						continue
					}
					if meta, ok := peers.DecodeMeta(m); ok {
						h.S.Fail("C10", "answered-without-forwarding", "op %d (token %s, type %d class %d): upstream %s never received this question, yet the client got an upstream-generated answer (made for type %d class %d, serial %d)", v.o.Op.Idx, v.o.Op.Token, v.q.Q[0].Type, v.q.Q[0].Class, u.Spec.Tag, meta.Type, meta.Class, meta.Serial)
					}
				}
			}
			for _, q := range u.Queries {
				if q.Decoded && q.Token == v.o.Op.Token && q.Name.Equal(v.lower) {
					match := false
					for _, w := range vs {
						if w.q != nil && w.o.Op.Token == q.Token && len(w.q.Q) == 1 && w.q.Q[0].Type == q.Type && w.q.Q[0].Class == q.Class {
							match = true
						}
					}
					if !match {
						h.S.Fail("C10", "type-class", "upstream %s got type %d class %d for token %s which no client asked", u.Spec.Tag, q.Type, q.Class, q.Token)
					}
				}
			}
			continue
		}
		if limiterOn(h.RP) {
			continue
		}
		for i, m := range v.resps {
			if m == nil || v.isHTTP && v.o.Resps[i].Status != 200 {
				continue
			}
			h.S.Probe("c10_" + v.outcome.Kind)
			if m.Rcode() != v.outcome.Rcode {
				h.S.Fail("C10", "rcode", "op %d: rule outcome %s wants rcode %d, client got %d", v.o.Op.Idx, v.outcome.Kind, v.outcome.Rcode, m.Rcode())
			}
		}
	}
}

func keys(m map[string]bool) []string {
	var k []string
	for x := range m {
		k = append(k, x)
	}
	for i := 1; i < len(k); i++ {
		for j := i; j > 0 && k[j] < k[j-1]; j-- {
			k[j], k[j-1] = k[j-1], k[j]
		}
	}
	return k
}

// ---- C12: EDNS0 ----

func checkC12(h *History, vs []*opView) {
	classSeen := map[uint16]int{}
	for _, v := range vs {
		if v.q == nil || v.o.Op.Raw != nil {
			continue
		}
		for i, m := range v.resps {
			if m == nil || v.isHTTP && v.o.Resps[i].Status != 200 {
				continue
			}
			opts := m.OPTs()
			name := fmt.Sprintf("op %d (%s, token %s)", v.o.Op.Idx, v.srv.Proto, v.o.Op.Token)
			if !v.hadEDNS {
				if len(opts) > 0 {
					h.S.Fail("C12", "opt-without-edns-query", "%s: query had no OPT but the response has %d", name, len(opts))
				}
				continue
			}
			if !v.supported {
				continue
			}
			// refused-by-limiter responses are built without the handler; skip when limiter on
			if limiterOn(h.RP) && m.Rcode() == 5 {
				continue
			}
			h.S.Probe("c12_client_opt_checked")
			if len(opts) != 1 {
				h.S.Fail("C12", "opt-count", "%s: query had an OPT, response has %d", name, len(opts))
				continue
			}
			o := opts[0]
			if len(o.Data) != 0 {
				h.S.Fail("C12", "options-relayed", "%s: response OPT carries %d bytes of options: %x", name, len(o.Data), trunc(o.Data, 40))
			}
			if o.TTL != 0 {
				h.S.Fail("C12", "opt-ttl", "%s: response OPT TTL field %08x (extended rcode/version/flags relayed?)", name, o.TTL)
			}
			if len(o.Name) != 1 {
				h.S.Fail("C12", "opt-name", "%s: OPT owner is not the root", name)
			}
			classSeen[o.Class]++
		}
	}
	if len(classSeen) > 1 {
		h.S.Fail("C12", "udp-size-not-constant", "responses advertise different UDP sizes: %v", classSeen)
	}
	// upstream side
	srcs := map[string][]netip.Addr{}
	for _, v := range vs {
		srcs[v.o.Op.Token] = append(srcs[v.o.Op.Token], v.srcSeen)
	}
	for _, tag := range h.UpOrder {
		for _, q := range h.Ups[tag].Queries {
			if !q.Decoded {
				continue
			}
			name := fmt.Sprintf("query for token %s at upstream %s", q.Token, tag)
			if len(q.OPTs) != 1 {
				h.S.Fail("C12", "upstream-opt-count", "%s carries %d OPT records", name, len(q.OPTs))
				continue
			}
			h.S.Probe("c12_upstream_opt_checked")
			os, err := refdns.ParseOptions(q.OPTs[0].Data)
			if err != nil {
				h.S.Fail("C12", "upstream-opt-malformed", "%s: OPT RDATA %x", name, q.OPTs[0].Data)
				continue
			}
			var ecs []refdns.EDNSOption
			for _, o := range os {
				if o.Code == 8 {
					ecs = append(ecs, o)
				} else {
					h.S.Fail("C12", "option-relayed-upstream", "%s: carries option code %d (%x)", name, o.Code, trunc(o.Data, 32))
				}
			}
			cands, known := srcs[q.Token]
			if !known {
				continue
			}
			anyKnown, anyUnknown := false, false
			for _, a := range cands {
				if a.IsValid() {
					anyKnown = true
				} else {
					anyUnknown = true
				}
			}
			if !h.RP.ECS {
				if len(ecs) > 0 {
					h.S.Fail("C12", "ecs-when-disabled", "%s: ECS present although disabled", name)
				}
				continue
			}
			if len(ecs) == 0 {
				if anyKnown && !anyUnknown {
					h.S.Fail("C12", "ecs-missing", "%s: ECS enabled and client address known, but no ECS option", name)
				}
				continue
			}
			if len(ecs) > 1 {
				h.S.Fail("C12", "ecs-dup", "%s: %d ECS options", name, len(ecs))
				continue
			}
			if !anyKnown {
				h.S.Fail("C12", "ecs-for-unknown-client", "%s: ECS %x although the client address is unknown", name, ecs[0].Data)
				continue
			}
			h.S.Probe("c12_ecs_checked")
			okAny := false
			var why string
			for _, a := range cands {
				if !a.IsValid() {
					continue
				}
				if w := ecsMismatch(ecs[0].Data, a); w == "" {
					okAny = true
					break
				} else {
					why = w
				}
			}
			if !okAny {
				h.S.Fail("C12", "ecs-content", "%s: ECS %x does not describe any requesting client %v: %s", name, ecs[0].Data, cands, why)
			}
		}
	}
}

// ecsMismatch returns "" when d is exactly addr truncated to /24 or /56.
func ecsMismatch(d []byte, addr netip.Addr) string {
	if len(d) < 4 {
		return "short option"
	}
	fam := binary.BigEndian.Uint16(d)
	src, scope := int(d[2]), int(d[3])
	ab := d[4:]
	a := addr.Unmap()
	wantFam, wantBits, wantLen := uint16(1), 24, 3
	if !a.Is4() {
		wantFam, wantBits, wantLen = 2, 56, 7
	}
	if fam != wantFam {
		return fmt.Sprintf("family %d, want %d", fam, wantFam)
	}
	if src != wantBits {
		return fmt.Sprintf("source prefix %d, want %d", src, wantBits)
	}
	if scope != 0 {
		return fmt.Sprintf("scope %d, want 0", scope)
	}
	if len(ab) != wantLen {
		return fmt.Sprintf("%d address octets, want %d", len(ab), wantLen)
	}
	p, _ := a.Prefix(wantBits)
	full := p.Addr().AsSlice()
	for i := range ab {
		if ab[i] != full[i] {
			return fmt.Sprintf("address octets %x, want %x", ab, full[:wantLen])
		}
	}
	return ""
}

// ---- C13: stream framing ----

func checkC13(h *History, vs []*opView) {
	byConn := map[int][]*opView{}
	for _, v := range vs {
		if v.isStream {
			byConn[v.cc.Idx] = append(byConn[v.cc.Idx], v)
		}
	}
	for ci, ops := range byConn {
		cr := h.Conns[ci]
		if cr.DialErr != "" {
			continue
		}
		garbage := false
		for _, v := range ops {
			if v.q == nil || v.o.Op.Raw != nil {
				garbage = true
			}
		}
		// framing of the inbound stream
		st := cr.Stream
		var frames [][]byte
		for len(st) >= 2 {
			l := int(binary.BigEndian.Uint16(st))
			if len(st) < 2+l {
				break
			}
			frames = append(frames, st[2:2+l])
			st = st[2+l:]
		}
		if len(st) > 0 && !garbage {
			h.S.Fail("C13", "partial-frame", "conn %d (%s): stream ends with %d bytes that do not form a frame (prefix lies or responses interleaved)", ci, cr.Proto, len(st))
		}
		for i, f := range frames {
			if _, err := refdns.Parse(f); err != nil {
				h.S.Fail("C13", "frame-body", "conn %d (%s): frame %d of %d bytes does not decode (%v): %x", ci, cr.Proto, i, len(f), err, trunc(f, 48))
			}
		}
		if garbage || limiterOn(h.RP) || h.RP.CloseAtUs > 0 {
			continue
		}
		// a complete query that the proxy answers by closing the connection
		// less than a request deadline later was not decoded: whatever the
		// segmentation, the listener's idle time-out (>= 8 s here) cannot have
		// run out on a connection that has just delivered a frame
		for _, v := range ops {
			if v.q == nil || v.q.Has(refdns.BitQR) || !v.o.Sent || v.o.Err != "" || len(v.o.Resps) > 0 {
				continue
			}
			gone := cr.PeerGoneAt
			clientKept := cr.ClosedAt - v.o.SentAt
			if gone != 0 && gone > v.o.SentAt && gone < v.o.SentAt+requestDeadline && clientKept >= requestDeadline+2*time.Second && (cr.ClosedAt == 0 || gone < cr.ClosedAt) {
				h.S.Fail("C13", "closed-with-query-pending", "conn %d (%s): the query with id %d was completely sent at %v and never answered: the proxy closed the connection %v later (the client kept it open for %v)", ci, cr.Proto, v.q.ID, v.o.SentAt, gone-v.o.SentAt, clientKept)
				break
			}
		}
		// every decodable query answered exactly once (ids as multiset)
		want := map[uint16]int{}
		optional := map[uint16]int{} // QR=1 messages: the statement is silent on whether they are answered
		nq := 0
		minOpen := time.Duration(1 << 62)
		for _, v := range ops {
			if v.q == nil {
				continue
			}
			if v.q.Has(refdns.BitQR) {
				optional[v.q.ID]++
				continue
			}
			want[v.q.ID]++
			nq++
			if v.keptOpen < minOpen {
				minOpen = v.keptOpen
			}
		}
		if minOpen < requestDeadline+slack+500*time.Millisecond {
			continue
		}
		got := map[uint16]int{}
		for _, f := range frames {
			if len(f) >= 2 {
				got[binary.BigEndian.Uint16(f)]++
			}
		}
		h.S.Probe("c13_conn_checked")
		if len(ops) > 1 {
			h.S.Probe("c13_pipelined")
		}
		for id, n := range want {
			if got[id] < n || got[id] > n+optional[id] {
				h.S.Fail("C13", "id-multiset", "conn %d (%s): id %d sent %d times, answered %d times (%d queries, %d frames)", ci, cr.Proto, id, n, got[id], nq, len(frames))
			}
		}
		for id, n := range got {
			if want[id] == 0 && optional[id] == 0 {
				h.S.Fail("C13", "unsolicited-frame", "conn %d (%s): %d frames with id %d that was never sent", ci, cr.Proto, n, id)
			}
		}
		// overload arm
		lim := int(ops[0].srv.MaxConcurrent)
		if lim > 0 && h.P.Arm == "overload" && nq > lim {
			// the burst: every operation sent at the time of the first one; what
			// the connection asks later (second phase) is counted apart
			first := time.Duration(1 << 62)
			for _, v := range ops {
				if v.q != nil && time.Duration(v.o.Op.AtUs)*time.Microsecond < first {
					first = time.Duration(v.o.Op.AtUs) * time.Microsecond
				}
			}
			nburst, refused := 0, 0
			var late []*opView
			for _, v := range ops {
				if v.q == nil {
					continue
				}
				if time.Duration(v.o.Op.AtUs)*time.Microsecond > first+time.Second {
					late = append(late, v)
					continue
				}
				nburst++
				for _, r := range v.o.Resps {
					if m, err := refdns.Parse(r.B); err == nil && m.Rcode() == 5 {
						refused++
					}
				}
			}
			h.S.Probe("c13_overload")
			if nburst > lim && refused != nburst-lim {
				h.S.Fail("C13", "overload-refused", "conn %d (%s): %d queries in one burst with limit %d: %d REFUSED, want %d", ci, cr.Proto, nburst, lim, refused, nburst-lim)
			}
			// second phase: a query sent while fewer queries than the limit are
			// in flight on the connection (every earlier one answered at least
			// 100 ms before, at most limit-1 others sent with it) is not refused
			for _, v := range late {
				if !v.o.Sent || len(v.o.Resps) == 0 {
					continue
				}
				inflight := 0
				for _, w := range ops {
					if w == v || w.q == nil || !w.o.Sent || w.o.SentAt > v.o.SentAt+100*time.Millisecond {
						continue
					}
					if len(w.o.Resps) == 0 || w.o.Resps[0].At+100*time.Millisecond > v.o.SentAt {
						inflight++
					}
				}
				if inflight >= lim {
					continue
				}
				h.S.Probe("c13_within_limit_checked")
				if m, err := refdns.Parse(v.o.Resps[0].B); err == nil && m.Rcode() == 5 {
					h.S.Fail("C13", "refused-within-limit", "conn %d (%s): the query with id %d, sent at %v with at most %d other queries in flight on the connection (limit %d), was answered REFUSED", ci, cr.Proto, v.q.ID, v.o.SentAt, inflight, lim)
					break
				}
			}
		}
	}
}

// ---- C18 (router part) ----

func checkC18router(h *History) {
	if len(h.OpenAfterClose) > 0 {
		h.S.Fail("C18", "leak-after-close", "after close and a 150 s grace period the proxy still owns: %s", strings.Join(h.OpenAfterClose, "; "))
	}
	h.S.Probe("c18_router_close_checked")
}

// ---- C01: liveness after garbage ----

func checkC01(h *History, vs []*opView) {
	if limiterOn(h.RP) || h.RP.CloseAtUs > 0 {
		return
	}
	// per server: after the last garbage op, a valid supported probe op sent
	// later (on another transport or the same one) must be answered.
	lastGarbage := map[int]time.Duration{}
	any := false
	for _, v := range vs {
		if v.o.Op.Raw != nil || v.q == nil || v.o.Op.HTTPVariant != "" {
			any = true
			if v.o.SentAt > lastGarbage[v.cc.Server] {
				lastGarbage[v.cc.Server] = v.o.SentAt
			}
			// garbage must be rejected, not answered with a DNS message... a
			// mutation may still decode, so nothing is required of it here.
			if v.isHTTP && v.q == nil && v.o.Op.Raw != nil {
				for _, r := range v.o.Resps {
					if r.Status == 200 {
						if _, err := refdns.Parse(v.o.Op.Raw); err != nil {
							// the harness decoder rejects it; the proxy's own may not. Not a violation by itself.
							h.S.Probe("c01_http_garbage_200")
						}
					} else if r.Status == 400 {
						h.S.Probe("c01_http_400")
					}
				}
			}
		}
	}
	if !any {
		return
	}
	garbageConn := map[int]bool{}
	for _, v := range vs {
		if v.o.Op.Raw != nil || v.q == nil {
			garbageConn[v.cc.Idx] = true
		}
	}
	for _, v := range vs {
		lg, ok := lastGarbage[v.cc.Server]
		if !ok || v.o.SentAt <= lg || v.q == nil || v.o.Op.Raw != nil || !v.supported || v.q.Has(refdns.BitQR) {
			continue
		}
		if v.isStream && garbageConn[v.cc.Idx] || v.cr.DialErr != "" && v.srv.MTLS {
			continue
		}
		if v.o.Op.HTTPVariant != "" {
			continue
		}
		h.S.Probe("c01_liveness_probe")
		if v.cr.DialErr != "" {
			h.S.Fail("C01", "stopped-serving", "op %d: cannot connect to %s listener after garbage: %s", v.o.Op.Idx, v.srv.Proto, v.cr.DialErr)
			continue
		}
		ok200 := 0
		for i, r := range v.o.Resps {
			if (!v.isHTTP || r.Status == 200) && v.resps[i] != nil {
				ok200++
				// "still answered": the answer is to this query
				m := v.resps[i]
				if m.Rcode() == 2 && v.o.Op.Probe && v.outcome.Kind == "forward" && allActs(h.RP.Tokens[v.o.Op.Token], replyAct) && len(h.RP.Net.Partitions) == 0 && len(h.RP.Net.Connect) == 0 && h.RP.Net.UpDrop == 0 {
					// ... unless the upstream misbehaved towards another exchange
					// at about that time (a malformed reply or an abort takes a
					// shared connection down, and its other exchanges with it)
					disturbed := false
					if u := h.Ups[v.outcome.Forward]; u != nil {
						for _, rp := range u.Replies {
							if rp.Kind != "reply" && rp.Kind != "dup" && rp.Kind != "tc" && rp.At+2*time.Second >= v.o.SentAt && rp.QueryAt <= v.o.Resps[i].At {
								disturbed = true
							}
						}
					}
					if !disturbed {
						h.S.Fail("C01", "stopped-serving", "op %d: valid query on %s listener after garbage input was answered SERVFAIL although its upstream replies to it and did nothing wrong at that time", v.o.Op.Idx, v.srv.Proto)
					}
				}
				if m.ID != v.q.ID || len(m.Q) != 1 || len(v.q.Q) == 1 && (!m.Q[0].Name.Lower().Equal(v.q.Q[0].Name.Lower()) || m.Q[0].Type != v.q.Q[0].Type || m.Q[0].Class != v.q.Q[0].Class) {
					h.S.Fail("C01", "answered-wrongly", "op %d: valid query on %s listener after garbage input was answered with id %d question %v (sent id %d question %v)", v.o.Op.Idx, v.srv.Proto, m.ID, m.Q, v.q.ID, v.q.Q)
				}
			}
		}
		if ok200 == 0 && v.keptOpen >= requestDeadline+slack+500*time.Millisecond {
			h.S.Fail("C01", "stopped-serving", "op %d: valid query on %s listener %v after the last garbage input got no response", v.o.Op.Idx, v.srv.Proto, v.o.SentAt-lg)
		}
	}
}

var _ = peers.TokenOf

// peersTokenOrG returns the first label lower-cased (garbage operations use a
// first label starting with 'g').
func peersTokenOrG(n refdns.Name) string {
	ls := n.Labels()
	if len(ls) == 0 {
		return ""
	}
	return strings.ToLower(string(ls[0]))
}
