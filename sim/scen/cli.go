package scen

import (
	"encoding/json"
	"fmt"
	"os"
	"path/filepath"
	"sort"
	"strings"
	"testing"
	"testing/synctest"
	"time"

	"github.com/IrineSistiana/mosproxy/app/router"
	"github.com/IrineSistiana/mosproxy/internal/mlog"
	"github.com/IrineSistiana/mosproxy/verifsim/peers"
	"github.com/IrineSistiana/mosproxy/verifsim/plan"
	"github.com/IrineSistiana/mosproxy/verifsim/sim"
	"github.com/IrineSistiana/mosproxy/verifsim/vnet"
	"github.com/rs/zerolog"
	"gopkg.in/yaml.v3"
)

// cliFatal is what the `router` sub-command logs before it exits with status
// 1 on a configuration file its strict decoder does not accept.
const cliFatal = "failed to decode yaml struct"

// RunCLI executes the real `router -c <file>` command (cobra command, YAML
// reader, strict decoder, run()) inside the bubble on a generated
// configuration file, with the start-up fault "unknown_key": a key no
// configuration struct knows, added at a seeded place of the document.  The
// property (C10) wants such a file rejected at start-up.
//
// Rejection ends the process from inside (zerolog's Fatal calls os.Exit(1)),
// so the verdict for that case is written before the command starts, marked
// "accept_exit": the campaign takes it as the result iff the process ends
// with that status and the fatal message on stderr.  When the command is
// still running two simulated seconds later the configuration was accepted.
func RunCLI(t *testing.T, p *plan.Plan, keepLog int) *Result {
	rp := p.Router
	res := &Result{Seed: p.Seed, Family: p.Family, Focus: p.Focus, Arm: p.Arm, Stats: map[string]int64{}}
	out := os.Getenv("SIM_OUT")
	write := func(r *Result) {
		b, _ := json.Marshal(r)
		if out == "" {
			os.Stdout.Write(append(b, '\n'))
		} else {
			os.WriteFile(out, b, 0o644)
		}
	}
	pki := peers.NewPKI()
	dir := filepath.Join(os.TempDir(), fmt.Sprintf("verifsim-%d", os.Getpid()))
	os.RemoveAll(dir)
	if err := os.Mkdir(dir, 0o700); err != nil {
		res.Note = "tempdir: " + err.Error()
		return res
	}
	defer os.RemoveAll(dir)
	cfg, err := BuildConfig(rp, pki, dir)
	if err != nil {
		res.Note = "config: " + err.Error()
		return res
	}
	yb, err := yaml.Marshal(cfg)
	if err != nil {
		res.Note = "yaml: " + err.Error()
		return res
	}
	doc := map[string]any{}
	if err := yaml.Unmarshal(yb, &doc); err != nil {
		res.Note = "yaml: " + err.Error()
		return res
	}
	control := rp.StartFault == nil || rp.StartFault.Kind != "unknown_key"
	where := ""
	if !control {
		// every mapping node of the document, in a fixed order
		type node struct {
			path string
			m    map[string]any
		}
		var nodes []node
		var walk func(path string, v any)
		walk = func(path string, v any) {
			switch x := v.(type) {
			case map[string]any:
				nodes = append(nodes, node{path, x})
				ks := make([]string, 0, len(x))
				for k := range x {
					ks = append(ks, k)
				}
				sort.Strings(ks)
				for _, k := range ks {
					walk(path+"/"+k, x[k])
				}
			case []any:
				for i, e := range x {
					walk(fmt.Sprintf("%s[%d]", path, i), e)
				}
			}
		}
		walk("", doc)
		n := nodes[rp.StartFault.Pos%len(nodes)]
		key := rp.StartFault.Key
		if key == "" {
			key = "no_such_key"
		}
		if _, exists := n.m[key]; exists {
			key += "_x"
		}
		var val any
		switch rp.StartFault.Pos / len(nodes) % 4 {
		case 0:
			val = 1
		case 1:
			val = "x"
		case 2:
			val = map[string]any{"a": true}
		default:
			val = []any{1, 2}
		}
		n.m[key] = val
		where = fmt.Sprintf("%s/%s", n.path, key)
	}
	yb, _ = yaml.Marshal(doc)
	file := filepath.Join(dir, "config.yaml")
	if err := os.WriteFile(file, yb, 0o600); err != nil {
		res.Note = "config file: " + err.Error()
		return res
	}
	res.Stats["cli_runs"] = 1
	res.Probes = map[string]int64{}
	mlog.SetLvl(zerolog.ErrorLevel)

	// the verdict if the process exits with status 1 from here on
	pre := *res
	pre.AcceptExit, pre.AcceptStderr = 1, cliFatal
	pre.Nontrivial = true
	if control {
		pre.Note = "control: a configuration without unknown keys was rejected"
		pre.Violations = []sim.Violation{{Property: "HARNESS", Clause: "cli-control-rejected", Detail: "the generated configuration without any unknown key did not start:\n" + string(yb)}}
	} else {
		pre.Probes = map[string]int64{"c10_cli_unknown_key_rejected": 1}
	}
	write(&pre)

	func() {
		defer func() {
			if r := recover(); r != nil {
				if msg := fmt.Sprint(r); strings.Contains(msg, "deadlock") && strings.Contains(msg, "bubble") {
					return
				}
				panic(r)
			}
		}()
		synctest.Test(t, func(t *testing.T) {
			s := sim.New(p.Seed, keepLog)
			vnet.NewWorld(s)
			installKnobs(s, plan.Knobs{})
			cmd := router.VNewRouterCmd()
			cmd.SetArgs([]string{"-c", file})
			go cmd.Execute()
			s.Run(2 * time.Second)
			// still here: the configuration was accepted and the router runs
			if control {
				s.Probe("c10_cli_control_started")
			} else {
				s.Fail("C10", "unknown-key-accepted", "the router started on a configuration file with the unknown key %s:\n%s", where, string(yb))
			}
			res.Violations = s.Violations()
			res.Probes = s.Probes()
			res.Events = s.Events()
			res.SimNs = int64(s.Now())
			res.Nontrivial = true
			write(res)
			// the command offers no way to stop the router it started
			os.Exit(0)
		})
	}()
	return res
}
