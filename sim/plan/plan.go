// Package plan holds the plain-data description of one simulated run.  A plan
// is generated from the seed before the bubble is entered, is what the
// minimiser edits, and is the replay file.
package plan

type Plan struct {
	Version int    `json:"version"`
	Seed    uint64 `json:"seed"`
	Family  string `json:"family"` // router | xport | limiter
	Focus   string `json:"focus"`  // property the generator was biased for
	Arm     string `json:"arm"`    // clean | faults | ...
	Knobs   Knobs  `json:"knobs"`

	Router   *RouterPlan   `json:"router,omitempty"`
	Xport    *XportPlan    `json:"xport,omitempty"`
	Limiter  *LimiterPlan  `json:"limiter,omitempty"`
	Addr     []AddrCase    `json:"addr,omitempty"`
	Auth     []AuthCase    `json:"auth,omitempty"`
	LateDial *LateDialPlan `json:"late_dial,omitempty"`
	Codec    *CodecPlan    `json:"codec,omitempty"`

	// Expect, when set by a seeded-defect demonstration or a known finding,
	// is informational only.
	Note string `json:"note,omitempty"`
}

type Knobs struct {
	YieldDensity float64 `json:"yield_density"` // probability that a lock site yields
	YieldMask    uint64  `json:"yield_mask"`    // which sites are enabled (hash(site)&63 bit)
	StallProb    float64 `json:"stall_prob"`    // a yield becomes a long stall
	StallMaxUs   int64   `json:"stall_max_us"`
	GetFill      int     `json:"get_fill"`
	Quarantine   int     `json:"quarantine"`
	// NoPoison: released pool buffers keep their contents.
	NoPoison bool `json:"no_poison,omitempty"`
	// OtterBatch: write batch size of the memory cache backend (0 = shipped 64).
	OtterBatch int `json:"otter_batch,omitempty"`
	// OtterSkewUs: how far the memory cache's expiry sweep lags behind its
	// one-second clock (0 = 500 µs; close to a second = just ahead of it).
	OtterSkewUs int64 `json:"otter_skew_us,omitempty"`
	UDPMaxBatch int   `json:"udp_max_batch"`
	UDPCoalesce int64 `json:"udp_coalesce_us"`
	GCEveryUs   int64 `json:"gc_every_us"` // 0 = no scheduled GC
	LogDebug    bool  `json:"log_debug"`
	GnetReadCap int   `json:"gnet_read_cap"`
	// PoolPoison: released pooled objects (messages, records, questions,
	// request contexts) are poisoned, quarantined and checked (vsync.Pool).
	PoolPoison bool `json:"pool_poison,omitempty"`
	// PassDoubleRelease: the buffer-pool facade lets a detected double release
	// through to the real pool (consequences become visible to the other oracles).
	PassDoubleRelease bool `json:"pass_double_release,omitempty"`
	PoolQuarantine    int  `json:"pool_quarantine,omitempty"`
	// OldTLSResume: crypto/tls resumes a session without checking its chain
	// against the current RootCAs, as the library did up to go1.23 (the
	// toolchain the repository builds with by default).
	OldTLSResume bool `json:"old_tls_resume,omitempty"`
}

// ---- router family ----

type RouterPlan struct {
	Servers    []ServerSpec          `json:"servers"`
	Upstreams  []UpstreamSpec        `json:"upstreams"`
	DomainSets []DomainSetSpec       `json:"domain_sets,omitempty"`
	Rules      []RuleSpec            `json:"rules"`
	Cache      CacheSpec             `json:"cache"`
	ECS        bool                  `json:"ecs"`
	Limiter    LimiterSpec           `json:"limiter"`
	Conns      []ClientConn          `json:"conns"`
	Ops        []ClientOp            `json:"ops"`
	Tokens     map[string]*TokenSpec `json:"tokens"`
	Net        NetSpec               `json:"net"`
	ClockJumps []ClockJump           `json:"clock_jumps,omitempty"`
	HorizonUs  int64                 `json:"horizon_us"`
	// LogQueries: log.queries (every answered question is rendered in its
	// escaped text form).
	LogQueries bool `json:"log_queries,omitempty"`
	// MetricsAddr: the prometheus endpoint (started before everything else).
	MetricsAddr string `json:"metrics_addr,omitempty"`
	// CloseAtUs > 0: close the router at this time (C18).
	CloseAtUs int64 `json:"close_at_us,omitempty"`
	// StartFault makes start-up fail (C18/C10): see scen.
	StartFault *StartFault `json:"start_fault,omitempty"`
}

type StartFault struct {
	Kind string `json:"kind"` // addr_in_use | bad_pem | bad_proto | bad_scheme | dup_tag | unknown_upstream_tag | unknown_domain_tag | missing_tag | missing_addr
	Pos  int    `json:"pos"`
	Key  string `json:"key,omitempty"` // unknown_key: the key's name
}

type ServerSpec struct {
	Tag           string `json:"tag"`
	Proto         string `json:"proto"` // udp tcp gnet tls http fasthttp https quic
	Listen        string `json:"listen"`
	IdleTimeout   int    `json:"idle_timeout,omitempty"`
	MaxConcurrent int32  `json:"max_concurrent,omitempty"`
	UDPThreads    int    `json:"udp_threads,omitempty"`
	// MultiRoutes: udp.multi_routes (answer from the address the query was
	// sent to, learnt from the socket's ancillary data).
	MultiRoutes      bool   `json:"multi_routes,omitempty"`
	ClientAddrHeader string `json:"client_addr_header,omitempty"`
	MTLS             bool   `json:"mtls,omitempty"` // verify_client_cert with the run's CA
	QuicMaxStreams   int64  `json:"quic_max_streams,omitempty"`
}

type UpstreamSpec struct {
	Tag      string `json:"tag"`
	Addr     string `json:"addr"` // as written in the config
	DialAddr string `json:"dial_addr,omitempty"`
	// The fake server behind it:
	Kind  string `json:"kind"` // udp tcp tcp+pipeline tls tls+pipeline https http h3 quic
	Host  string `json:"host"` // ip the fake server listens on
	Port  int    `json:"port"`
	TLS   string `json:"tls,omitempty"` // cert profile presented by the server: good | wrongname | otherca | expired | notyet | selfsigned
	UseCA bool   `json:"use_ca,omitempty"`
	Skip  bool   `json:"skip_verify,omitempty"`
	HTTP1 bool   `json:"http1,omitempty"` // server does not offer h2
	// OtherCA: tls.ca names a file holding the PKI's other CA (the server's
	// certificate does not chain to it).
	OtherCA bool `json:"other_ca,omitempty"`
	// MustFail: with this configuration the server cannot be authenticated;
	// no exchange through this upstream may succeed (C17 arm pair).  An
	// upstream without Host has no server of its own: its URL leads to the
	// server of another upstream.
	MustFail bool `json:"must_fail,omitempty"`
	// QuicMaxStreams: the DoQ server's limit of concurrently open streams per
	// connection (0 = quic-go's default of 100).
	QuicMaxStreams int `json:"quic_max_streams,omitempty"`
}

type DomainSetSpec struct {
	Tag   string     `json:"tag"`
	Files [][]string `json:"files"` // lines per file
	// NoFinalNewline: indices of files whose last line is not terminated.
	NoFinalNewline []int `json:"no_final_newline,omitempty"`
}

type RuleSpec struct {
	Domain  string `json:"domain,omitempty"`
	Reverse bool   `json:"reverse,omitempty"`
	Reject  uint16 `json:"reject,omitempty"`
	Forward string `json:"forward,omitempty"`
}

type CacheSpec struct {
	MemSize  int         `json:"mem_size"`
	MaxTTL   int         `json:"max_ttl"`
	IpMarker []RangeSpec `json:"ip_marker,omitempty"`
	// Redis: a second-level cache on a simulated redis server (vredis).
	Redis *RedisSpec `json:"redis,omitempty"`
}

// RedisSpec is the behaviour of the simulated redis server.
type RedisSpec struct {
	LatUs   [2]int64   `json:"lat_us"`
	DownUs  [][2]int64 `json:"down_us,omitempty"`  // [from,to) windows without answers
	FlushUs []int64    `json:"flush_us,omitempty"` // restarts that lose all data
	// SlowGetUs: GET commands take this long (a busy server, a large value)
	// while PING and SET stay fast - the client still counts as connected.
	SlowGetUs [2]int64 `json:"slow_get_us,omitempty"`
}

type RangeSpec struct {
	Start, End, Label string
}

// TwinSpec: two client subnets that ask the same listener the same number of
// questions at the same time from Phase3Us on; before that, the second one is
// silent and the first one has asked only while the global limit was
// exhausted by others.
type TwinSpec struct {
	V1       string `json:"v1"`
	V2       string `json:"v2"`
	Phase3Us int64  `json:"phase3_us"`
}

type LimiterSpec struct {
	Twins  []TwinSpec `json:"twins,omitempty"`
	Global int        `json:"global,omitempty"`
	Limit  int        `json:"limit,omitempty"`
	Burst  int        `json:"burst,omitempty"`
	V4Mask int        `json:"v4_mask,omitempty"`
	V6Mask int        `json:"v6_mask,omitempty"`
}

type ClientConn struct {
	Idx        int    `json:"idx"`
	Server     int    `json:"server"`
	Src        string `json:"src"`
	SegMode    int    `json:"seg_mode,omitempty"`
	SegBytes   int    `json:"seg_bytes,omitempty"`
	LingerUs   int64  `json:"linger_us"` // how long after its last op the client keeps the transport open
	XFF        string `json:"xff,omitempty"`
	ClientCert string `json:"client_cert,omitempty"` // "" | good | otherca | expired | selfsigned | notyet (always presented) | plain (no TLS at all on a tls listener)
	// PlainAfterFail: when the TLS handshake fails the client keeps the TCP
	// connection and sends its queries as plain DNS-over-TCP frames on it.
	PlainAfterFail bool `json:"plain_after_fail,omitempty"`
	HTTP2          bool `json:"http2,omitempty"`
	Coalesce       bool `json:"coalesce,omitempty"` // stream clients: write all frames whose time has come in one Write
	// Straddle: every write ends inside a frame: the last octets of a query
	// are held back and sent together with the head of the next one (the
	// final tail follows a second after the last query).
	Straddle bool `json:"straddle,omitempty"`
	// AltDst: send to the proxy's second address of the family (a wildcard
	// UDP listener with multi_routes has to answer from that address).
	AltDst bool `json:"alt_dst,omitempty"`
}

type EDNSSpec struct {
	UDPSize uint16       `json:"udp_size"`
	TTL     uint32       `json:"ttl"` // ext-rcode, version, DO bit
	Options []EDNSOption `json:"options,omitempty"`
}

type EDNSOption struct {
	Code uint16 `json:"code"`
	Data []byte `json:"data"`
}

type ClientOp struct {
	Idx    int      `json:"idx"`
	Conn   int      `json:"conn"`
	AtUs   int64    `json:"at_us"`
	ID     uint16   `json:"id"`
	Token  string   `json:"token"`
	Labels [][]byte `json:"labels"`
	Type   uint16   `json:"type"`
	Class  uint16   `json:"class"`
	Bits   uint16   `json:"bits"`
	NQ     int      `json:"nq"`
	// DistinctQ: the questions after the first are asked under names that end in
	// a label of their own (no common suffix).
	DistinctQ bool      `json:"distinct_q,omitempty"`
	EDNS      *EDNSSpec `json:"edns,omitempty"`
	Raw       []byte    `json:"raw,omitempty"` // garbage instead of a query
	Method    string    `json:"method,omitempty"`
	// HTTPVariant: "" | bad_accept | bad_ctype | bad_b64 | oversize | put
	HTTPVariant string `json:"http_variant,omitempty"`
	// Probe: a plain query with a small, promptly given answer, placed after the
	// malformed input by the C01 generator.
	Probe bool `json:"probe,omitempty"`
}

// TokenSpec is what the fake upstreams do with queries carrying the token.
type TokenSpec struct {
	Ans  AnswerSpec `json:"ans"`
	Acts []UpAction `json:"acts"` // per arrival; the last repeats
	// Ans2, when set, replaces Ans from arrival number Ans2From on (a
	// refresh that turns negative, a changed answer, ...).
	Ans2     *AnswerSpec `json:"ans2,omitempty"`
	Ans2From int         `json:"ans2_from,omitempty"`
	// Ans2Only, when not empty, lists the arrival numbers answered with Ans2
	// (every other arrival gets Ans); Ans2From is ignored then.
	Ans2Only []int `json:"ans2_only,omitempty"`
}

// SpecFor returns the answer spec used for the given arrival number.
func (t *TokenSpec) SpecFor(arrival int) *AnswerSpec {
	if t.Ans2 != nil && len(t.Ans2Only) > 0 {
		for _, a := range t.Ans2Only {
			if a == arrival {
				return t.Ans2
			}
		}
		return &t.Ans
	}
	if t.Ans2 != nil && arrival >= t.Ans2From {
		return t.Ans2
	}
	return &t.Ans
}

type AnswerSpec struct {
	Rcode int      `json:"rcode"`
	Bits  uint16   `json:"bits"` // AA TC AD CD as header bits
	NAn   int      `json:"n_an"`
	NNs   int      `json:"n_ns"`
	NAr   int      `json:"n_ar"`
	TTLs  []uint32 `json:"ttls"`
	Shape string   `json:"shape"` // plain | binary | suffix | srv | big | unknown | mixed
	PadTo int      `json:"pad_to,omitempty"`
	// MaxNames: the name pool also holds names of exactly 255 and 254 octets.
	MaxNames bool `json:"max_names,omitempty"`
	// Nested: the name pool holds a chain of names each of which is the
	// previous one with another label in front (12-16 of them): written with
	// full suffix sharing, the last one is reached through as many pointers.
	Nested bool   `json:"nested,omitempty"`
	OPT    *UpOPT `json:"opt,omitempty"`
	// Compress: how the server lays the reply out: 0 none, 1 owners, 2 owners+rdata, 3 +srv
	Compress int `json:"compress"`
}

type UpOPT struct {
	Pos     int          `json:"pos"` // index in additional section (clamped)
	UDPSize uint16       `json:"udp_size"`
	TTL     uint32       `json:"ttl"`
	Options []EDNSOption `json:"options,omitempty"`
}

// UpAction kinds: reply | reply_twice | silent | garbage | fin | rst |
// half_frame | wrong_id | stale_dup | truncate_udp | http_500
type UpAction struct {
	Kind    string `json:"kind"`
	DelayUs int64  `json:"delay_us"`
	Arg     int    `json:"arg,omitempty"`
	Raw     []byte `json:"raw,omitempty"`
	// Hdr != 0: the reply's header is odd but decodable: opcode = Hdr&15,
	// bit 4 clears RA, bit 5 flips RD, bit 6 clears QR.
	Hdr int `json:"hdr,omitempty"`
}

type NetSpec struct {
	// client<->proxy links
	ClientLatUs [2]int64 `json:"client_lat_us"`
	// proxy<->upstream links
	UpLatUs   [2]int64 `json:"up_lat_us"`
	UpSegMode int      `json:"up_seg_mode,omitempty"`
	UpDrop    float64  `json:"up_drop,omitempty"`
	UpDup     float64  `json:"up_dup,omitempty"`
	UpCorrupt float64  `json:"up_corrupt,omitempty"`
	ClDrop    float64  `json:"cl_drop,omitempty"`
	ClDup     float64  `json:"cl_dup,omitempty"`
	// Connect faults by upstream tag: refuse | blackhole
	Connect    map[string]string `json:"connect,omitempty"`
	Partitions []Partition       `json:"partitions,omitempty"`
	// ICMP: a datagram to a port nobody listens on bounces "connection
	// refused" to a connected sender (port unreachable).
	ICMP bool `json:"icmp,omitempty"`
}

type Partition struct {
	Host   string `json:"host"` // upstream host ip cut from the proxy
	FromUs int64  `json:"from_us"`
	ToUs   int64  `json:"to_us"`
}

type ClockJump struct {
	AtUs int64 `json:"at_us"`
	ByUs int64 `json:"by_us"`
}

// ---- transport family ----

type XportPlan struct {
	Upstreams []UpstreamSpec        `json:"upstreams"`
	Calls     []XCall               `json:"calls"`
	Tokens    map[string]*TokenSpec `json:"tokens"`
	Net       NetSpec               `json:"net"`
	Closes    []XClose              `json:"closes,omitempty"`
	HorizonUs int64                 `json:"horizon_us"`
	IdleMs    int                   `json:"idle_ms,omitempty"`
	// ServerEvents are faults injected at the fake servers at fixed times.
	ServerEvents []ServerEvent `json:"server_events,omitempty"`
	// Exhaust: run the wire-id exhaustion plan on upstream 0.
	Exhaust int `json:"exhaust,omitempty"`
	// ExhaustClose: the exchanges that take the connection's last ids are
	// answered seconds late, and the upstream is closed while they wait (C18).
	ExhaustClose bool `json:"exhaust_close,omitempty"`
}

type XCall struct {
	Idx        int    `json:"idx"`
	Up         int    `json:"up"`
	AtUs       int64  `json:"at_us"`
	ID         uint16 `json:"id"`
	Token      string `json:"token"`
	Type       uint16 `json:"type"`
	DeadlineUs int64  `json:"deadline_us"` // relative
	CancelUs   int64  `json:"cancel_us"`   // relative; 0 = none
}

type XClose struct {
	Up    int   `json:"up"`
	AtUs  int64 `json:"at_us"`
	Twice bool  `json:"twice,omitempty"`
}

// ServerEvent kinds: close_idle_conns | crash | restart | reset_all
type ServerEvent struct {
	Up   int    `json:"up"`
	AtUs int64  `json:"at_us"`
	Kind string `json:"kind"`
	// DownMs (kind "down"): the server stops listening for this long.
	DownMs int `json:"down_ms,omitempty"`
}

// ---- limiter family ----

type LimiterPlan struct {
	Spec   LimiterSpec `json:"spec"`
	Events []LimEvent  `json:"events"`
	// Bursts: after the events, K evaluations for one address in the same
	// instant from K goroutines (first contact of a subnet, or first contact
	// after minutes of silence).
	Bursts []LimBurst `json:"bursts,omitempty"`
}

type LimBurst struct {
	AtUs int64  `json:"at_us"`
	Addr string `json:"addr"`
	K    int    `json:"k"`
	N    int    `json:"n"`
}

type LimEvent struct {
	AtUs int64  `json:"at_us"`
	Addr string `json:"addr"`
	N    int    `json:"n"`
}

// ---- C17 (a): address forms ----

// AddrCase is one upstream address form, described structurally so that the
// expected dial target does not come from re-parsing the string.
type AddrCase struct {
	Idx      int    `json:"idx"`
	Scheme   string `json:"scheme"`    // "" udp tcp tcp+pipeline tls tls+pipeline https http
	HostForm string `json:"host_form"` // ip4 | ip6 | ip6upper | ip6long | name
	Port     int    `json:"port"`      // 0 = absent
	DialForm string `json:"dial_form"` // "" | ip4 | ip4port | ip6port | ip6bare | name | nameport | unix
	DialPort int    `json:"dial_port"`
	// DialDown: nothing listens at the dial_addr target; the server is where
	// the URL points.  Every connection attempt still has to go to the
	// override, and no query may reach the server.
	DialDown bool `json:"dial_down,omitempty"`
}

// ---- C17 (b): upstream authentication ----

type AuthCase struct {
	Idx     int    `json:"idx"`
	Kind    string `json:"kind"`    // tls tls+pipeline https
	Profile string `json:"profile"` // certificate the server presents
	Option  string `json:"option"`  // ca | none | skip
	ByName  bool   `json:"by_name"`
}

// LateDialPlan: a transport built directly over an injected dialer whose
// dials complete after a delay regardless of their context (C18).
type LateDialPlan struct {
	Kind          string  `json:"kind"` // reuse | pipeline | quic
	DialDelayUs   []int64 `json:"dial_delay_us"`
	DialTimeoutUs int64   `json:"dial_timeout_us"`
	CallAtUs      []int64 `json:"call_at_us"`
	CallLimitUs   int64   `json:"call_limit_us"`
	CloseAtUs     int64   `json:"close_at_us"`
	SecondClose   bool    `json:"second_close,omitempty"`
	// HonourCtx: the injected dialer gives up the moment its context is
	// cancelled (as net.Dialer does) instead of ignoring it.
	HonourCtx bool `json:"honour_ctx,omitempty"`
}

// CodecPlan: a history of messages for the wire codec (C02 arm codec).
type CodecPlan struct {
	Alive int         `json:"alive"` // decoded messages kept alive before the oldest is re-encoded and released
	Items []CodecItem `json:"items"`
}

type CodecItem struct {
	Idx    int        `json:"idx"`
	Token  string     `json:"token"`
	Labels [][]byte   `json:"labels"`
	Type   uint16     `json:"type"`
	Class  uint16     `json:"class"`
	Ans    AnswerSpec `json:"ans"`
	CutAt  int        `json:"cut_at,omitempty"` // > 0: the message is cut short (must be rejected)
}
