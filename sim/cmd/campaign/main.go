// campaign drives one property's check: it spawns one simulator process per
// run seed, aggregates results, minimises and replays failures, honours the
// known-findings file and writes the evidence file.
//
//	campaign -prop C03 -tier quick -bin /verif/.build/sim.test [-replay f]
//
// Exit codes: 0 held on everything explored; 1 violation (with a
// "VIOLATION property=<id> replay=<path>" line); 2 could not decide.
package main

import (
	"bytes"
	"encoding/json"
	"errors"
	"flag"
	"fmt"
	"os"
	"os/exec"
	"path/filepath"
	"sort"
	"strconv"
	"strings"
	"sync"
	"syscall"
	"time"

	"github.com/IrineSistiana/mosproxy/verifsim/plan"
)

type violation struct {
	Property string `json:"property"`
	Clause   string `json:"clause"`
	Detail   string `json:"detail"`
	At       int64  `json:"at_ns"`
	Seq      uint64 `json:"seq"`
}

type result struct {
	Seed         uint64           `json:"seed"`
	Family       string           `json:"family"`
	Focus        string           `json:"focus"`
	Arm          string           `json:"arm"`
	Violations   []violation      `json:"violations"`
	Events       uint64           `json:"events"`
	SimNs        int64            `json:"sim_ns"`
	LogHash      string           `json:"log_hash"`
	SigHash      string           `json:"sig_hash"`
	Faults       map[string]int64 `json:"faults"`
	Probes       map[string]int64 `json:"probes"`
	Stats        map[string]int64 `json:"stats"`
	Exhausted    bool             `json:"exhausted"`
	Nontrivial   bool             `json:"nontrivial"`
	Note         string           `json:"note"`
	Sample       json.RawMessage  `json:"sample"`
	AcceptExit   int              `json:"accept_exit"`
	AcceptStderr string           `json:"accept_stderr"`

	crashed bool
	stderr  string
	timeout bool
	races   []string
	raceRun bool
	// planPath is set when the run executed a plan file (regression corpus)
	planPath string
}

// raceReports extracts the race detector reports that involve repository code.
func raceReports(s string) []string {
	var out []string
	for _, blk := range strings.Split(s, "==================") {
		if !strings.Contains(blk, "WARNING: DATA RACE") || !strings.Contains(blk, "/repo/") {
			continue
		}
		// identify the report by its repository frames
		var sites []string
		for _, l := range strings.Split(blk, "\n") {
			l = strings.TrimSpace(l)
			if strings.HasPrefix(l, "/repo/") {
				if i := strings.IndexByte(l, ' '); i > 0 {
					l = l[:i]
				}
				if len(sites) < 4 && (len(sites) == 0 || sites[len(sites)-1] != l) {
					sites = append(sites, l)
				}
			}
		}
		out = append(out, "data race involving "+strings.Join(sites, " , ")+"\n"+tail(blk, 2500))
	}
	return out
}

type finding struct {
	Status   string `json:"status"` // known | fixed
	Property string `json:"property"`
	Clause   string `json:"clause"`
	Match    string `json:"match"` // substring of the violation detail identifying the failing input / site
	What     string `json:"what"`
	Commit   string `json:"commit,omitempty"`
}

type propCfg struct {
	Focus    string   // SIM_FOCUS value
	Arms     []string // cycled
	Probes   []string // required probes
	Quick    int      // seconds
	Thorough int
	Race     bool
	// Rare arms are expensive: they run once at the start and then every
	// RareEvery-th run.
	Rare      []string
	RareEvery int
	Wall      int // wall-clock cap per run in seconds (0 = default)
}

var props = map[string]propCfg{
	"C01": {Focus: "C01", Arms: []string{"garbage"}, Probes: []string{"c01_liveness_probe"}, Wall: 20},
	"C02": {Focus: "C02", Arms: []string{"clean", "codec", "garbage"}, Probes: []string{"c02_fresh_compared", "content_checked"}},
	"C03": {Focus: "C03", Arms: []string{"clean", "faults"}, Probes: []string{"c03_checked", "c03_notimp", "c03_refused", "c03_servfail"}},
	"C04": {Focus: "C04", Arms: []string{"clean", "late", "prefetch", "cache", "redis"}, Rare: []string{"exhaust"}, RareEvery: 1500, Probes: []string{"content_checked", "cache_hit_last_quarter"}},
	"C05": {Focus: "C05", Arms: []string{"clean"}, Rare: []string{"exhaust"}, RareEvery: 1000, Probes: []string{"c05_reply_checked", "c05_wireid_checked", "c05_exhaust_completed", "c05_exhaust_rollover_seen"}},
	"C06": {Focus: "C06", Arms: []string{"clean"}, Probes: []string{"c06_query_checked", "c06_reply_checked"}},
	"C14": {Focus: "C14", Arms: []string{"stale", "faults"}, Rare: []string{"exhaust"}, RareEvery: 1500, Probes: []string{"c14_deadline_checked", "c14_liveness_checked", "c14_waiter_on_dead_conn", "c14_waiter_on_reused_conn_checked"}},
	"C20": {Focus: "C20", Arms: []string{"router", "xport", "prefetch", "cache"}, Race: true, Probes: []string{"content_checked", "c06_reply_checked"}},
	"C15": {Focus: "C15", Arms: []string{"unit", "e2e"}, Probes: []string{"c15_decisions_compared", "c15_e2e_refused", "c15_e2e_admitted"}},
	"C16": {Focus: "C16", Arms: []string{"clean"}, Probes: []string{"c16_tc_seen", "c16_tcp_outcome_returned", "c16_no_tc"}},
	"C07": {Focus: "C07", Arms: []string{"ample", "prefetch", "tiny", "redis"}, Probes: []string{"cache_hit", "c07_group_checked", "c07_compared_with_first_relay", "c07_hit_expected"}},
	"C08": {Focus: "C08", Arms: []string{"clean", "clean", "redis"}, Probes: []string{"cache_hit", "c08_ttl_checked", "cache_hit_last_quarter", "c08_servfail_fetched"}},
	"C17": {Focus: "C17", Arms: []string{"addr", "auth", "mtls", "pair"}, Probes: []string{"c17a_case_checked", "c17b_case_checked", "c17_mtls_checked", "c17_mtls_unacceptable_client", "c17_pair_mustfail_checked", "c17_pair_ok_checked"}},
	"C18": {Focus: "C18", Arms: []string{"xclose", "rclose", "startfault", "xclose", "latedial"}, Rare: []string{"exhaust"}, RareEvery: 1500, Probes: []string{"c18_upstream_close_checked", "c18_router_close_checked", "c18_call_after_close", "c18_call_inflight_at_close"}},
	"C19": {Focus: "C19", Arms: []string{"clean", "clean", "prefetch", "redis"}, Probes: []string{"cache_hit", "cache_hit_last_quarter", "c07_hit_expected"}},
	"C09": {Focus: "C09", Arms: []string{"clean", "clean", "codec"}, Probes: []string{"c09_truncated", "c09_fits"}},
	"C10": {Focus: "C10", Arms: []string{"clean", "startfault", "clean", "prefetch", "cli", "burst"}, Probes: []string{"c10_cli_unknown_key_rejected", "c10_cli_control_started", "c10_forward_checked", "c10_reject", "c10_refused"}},
	"C11": {Focus: "C11", Arms: []string{"clean", "clean", "burst"}, Probes: []string{"c10_forward_checked", "c11_matched", "c11_unmatched"}},
	"C12": {Focus: "C12", Arms: []string{"clean", "prefetch", "overload", "tight"}, Probes: []string{"c12_client_opt_checked", "c12_upstream_opt_checked", "c12_ecs_checked"}},
	"C13": {Focus: "C13", Arms: []string{"clean", "overload"}, Probes: []string{"c13_conn_checked", "c13_pipelined", "c13_overload", "c13_within_limit_checked"}},
}

func mix(x uint64) uint64 {
	x += 0x9e3779b97f4a7c15
	x = (x ^ (x >> 30)) * 0xbf58476d1ce4e5b9
	x = (x ^ (x >> 27)) * 0x94d049bb133111eb
	return x ^ (x >> 31)
}

var (
	binPath   string
	raceBin   string
	scratch   string
	childWall = 60 * time.Second
)

func childEnv(extra ...string) []string {
	env := []string{"GOMAXPROCS=1", "GODEBUG=asyncpreemptoff=1", "GOGC=off", "GOMEMLIMIT=1500MiB", "QUIC_GO_DISABLE_RECEIVE_BUFFER_WARNING=1", "HOME=" + os.Getenv("HOME"), "TMPDIR=" + scratch, "PATH=" + os.Getenv("PATH")}
	return append(env, extra...)
}

func runChild(env []string, outFile string) *result {
	bin := binPath
	for _, e := range env {
		if e == "SIM_RACE=1" {
			bin = raceBin
		}
	}
	cmd := exec.Command(bin, "-test.run", "^TestSim$", "-test.timeout", "0")
	cmd.Env = env
	var stderr bytes.Buffer
	cmd.Stderr = &stderr
	cmd.Stdout = &stderr
	if err := cmd.Start(); err != nil {
		return &result{crashed: true, stderr: "start: " + err.Error()}
	}
	done := make(chan error, 1)
	go func() { done <- cmd.Wait() }()
	var err error
	timedOut := false
	select {
	case err = <-done:
	case <-time.After(childWall):
		timedOut = true
		cmd.Process.Signal(syscall.SIGQUIT)
		time.Sleep(200 * time.Millisecond)
		cmd.Process.Kill()
		err = <-done
	}
	r := &result{}
	b, rerr := os.ReadFile(outFile)
	os.Remove(outFile)
	if strings.Contains(stderr.String(), "WARNING: DATA RACE") {
		r.races = raceReports(stderr.String())
	}
	if rerr == nil && json.Unmarshal(b, r) == nil && !timedOut && (err == nil || len(r.races) > 0) {
		r.AcceptExit = 0
		// the proxy's own error log: bytes that came back from its memory cache
		// did not decode.  Nothing outside the process can alter them, so the
		// stored response was not handed back intact (in simulation a buffer
		// released while it was being read carries the release poison)
		if i := strings.Index(stderr.String(), "invalid cache data in memory"); i >= 0 {
			line := stderr.String()[max(0, strings.LastIndex(stderr.String()[:i], "\n")+1):]
			if j := strings.IndexByte(line, '\n'); j >= 0 {
				line = line[:j]
			}
			d := "the proxy logged that the bytes its memory cache returned for a lookup did not decode (stored response not returned intact): " + line
			r.Violations = append(r.Violations, violation{Property: "C07", Clause: "cache-entry-corrupt", Detail: d}, violation{Property: "C20", Clause: "cache-entry-read-while-released", Detail: d}, violation{Property: "C04", Clause: "cache-returned-foreign-bytes", Detail: d})
		}
		return r
	}
	// a verdict written ahead of a step that ends the process from inside
	// (the CLI's fatal log on a rejected configuration file)
	if rerr == nil && !timedOut && r.AcceptExit != 0 && r.AcceptStderr != "" {
		var ee *exec.ExitError
		if errors.As(err, &ee) && ee.ExitCode() == r.AcceptExit && strings.Contains(stderr.String(), r.AcceptStderr) && !strings.Contains(stderr.String(), "panic:") {
			r.AcceptExit = 0
			return r
		}
	}
	*r = result{races: r.races}
	r.crashed = true
	r.timeout = timedOut
	r.stderr = tail(stderr.String(), 6000)
	if timedOut {
		r.stderr = tail(stderr.String(), 400000)
	}
	return r
}

func tail(s string, n int) string {
	if len(s) > n {
		return "…" + s[len(s)-n:]
	}
	return s
}

func runSeed(seed uint64, focus, arm string, keepLog int, id string) *result {
	out := filepath.Join(scratch, "res-"+id+".json")
	extra := []string{"SIM_MODE=genrun", "SIM_SEED=" + strconv.FormatUint(seed, 10), "SIM_FOCUS=" + focus, "SIM_ARM=" + arm, "SIM_OUT=" + out, "SIM_LOG=" + strconv.Itoa(keepLog)}
	if useRace {
		extra = append(extra, "SIM_RACE=1", "GORACE=halt_on_error=0 exitcode=0")
	}
	r := runChild(childEnv(extra...), out)
	r.Seed, r.Focus, r.Arm = seed, focus, arm
	return r
}

func runPlanFile(path string, keepLog int, id string) *result {
	out := filepath.Join(scratch, "res-"+id+".json")
	extra := []string{"SIM_MODE=run", "SIM_PLAN=" + path, "SIM_OUT=" + out, "SIM_LOG=" + strconv.Itoa(keepLog)}
	if useRace {
		extra = append(extra, "SIM_RACE=1", "GORACE=halt_on_error=0 exitcode=0")
	}
	return runChild(childEnv(extra...), out)
}

var useRace bool

var minBudget = 120

// runSeedRace runs one seed under the race detector build.
func runSeedRace(seed uint64, focus, arm, id string) *result {
	out := filepath.Join(scratch, "res-"+id+".json")
	env := childEnv("SIM_MODE=genrun", "SIM_SEED="+strconv.FormatUint(seed, 10), "SIM_FOCUS="+focus, "SIM_ARM="+arm, "SIM_OUT="+out, "SIM_LOG=0", "SIM_RACE=1", "GORACE=halt_on_error=0 exitcode=0")
	r := runChild(env, out)
	r.Seed, r.Focus, r.Arm = seed, focus, arm
	r.raceRun = true
	return r
}

func genPlan(seed uint64, focus, arm string) (*plan.Plan, error) {
	out := filepath.Join(scratch, fmt.Sprintf("plan-%d.json", seed))
	cmd := exec.Command(binPath, "-test.run", "^TestSim$")
	cmd.Env = childEnv("SIM_MODE=gen", "SIM_SEED="+strconv.FormatUint(seed, 10), "SIM_FOCUS="+focus, "SIM_ARM="+arm, "SIM_OUT="+out)
	if b, err := cmd.CombinedOutput(); err != nil {
		return nil, fmt.Errorf("gen: %v: %s", err, tail(string(b), 500))
	}
	b, err := os.ReadFile(out)
	os.Remove(out)
	if err != nil {
		return nil, err
	}
	p := new(plan.Plan)
	return p, json.Unmarshal(b, p)
}

// crashViolation turns a dead child into a violation when the stack shows
// code of the repository (or a runtime fatal error).
// hangViolation: the run never quiesced within the wall-clock cap and the
// SIGQUIT dump shows a goroutine *running* inside repository code.
func hangViolation(prop string, r *result) *violation {
	if !r.timeout {
		return nil
	}
	for _, blk := range strings.Split(r.stderr, "\n\n") {
		first := strings.SplitN(blk, "\n", 2)[0]
		if !strings.HasPrefix(first, "goroutine ") || !(strings.Contains(first, "[running") || strings.Contains(first, "[runnable")) {
			continue
		}
		for _, l := range strings.Split(blk, "\n") {
			l = strings.TrimSpace(l)
			if strings.HasPrefix(l, "/repo/") {
				if i := strings.IndexByte(l, ' '); i > 0 {
					l = l[:i]
				}
				return &violation{Property: prop, Clause: "hang", Detail: "the run did not quiesce within the wall-clock cap; a goroutine is spinning in repository code at " + l}
			}
		}
	}
	// a goroutine that repository code sent to wait for a mutex and that is
	// still waiting when the cap runs out: inside the bubble the clock stands
	// still while anybody waits for a real mutex, so nobody is going to
	// release it (the frame right above sync's own must be the repository's:
	// locks inside libraries are not judged)
	for _, blk := range strings.Split(r.stderr, "\n\n") {
		lines := strings.Split(blk, "\n")
		if !strings.HasPrefix(lines[0], "goroutine ") || !(strings.Contains(lines[0], "[sync.Mutex.Lock") || strings.Contains(lines[0], "[sync.RWMutex.")) {
			continue
		}
		for i := 1; i+1 < len(lines); i += 2 {
			fn, file := strings.TrimSpace(lines[i]), strings.TrimSpace(lines[i+1])
			if strings.HasPrefix(fn, "sync.") || strings.HasPrefix(fn, "internal/sync.") || strings.HasPrefix(fn, "runtime.") {
				continue
			}
			if strings.HasPrefix(file, "/repo/") {
				if j := strings.IndexByte(file, ' '); j > 0 {
					file = file[:j]
				}
				return &violation{Property: prop, Clause: "hang", Detail: "the run did not quiesce within the wall-clock cap; a goroutine of repository code is waiting for a mutex that is never released, at " + file}
			}
			break
		}
	}
	return nil
}

func crashViolation(prop string, r *result) *violation {
	s := r.stderr
	if r.timeout {
		return hangViolation(prop, r)
	}
	isPanic := strings.Contains(s, "panic:") || strings.Contains(s, "fatal error:")
	if !isPanic {
		return nil
	}
	if strings.Contains(s, "verifsim/") && !strings.Contains(s, "/repo/") {
		return nil // harness bug, not a finding
	}
	first := ""
	for _, l := range strings.Split(s, "\n") {
		if strings.HasPrefix(l, "panic:") || strings.HasPrefix(l, "fatal error:") {
			first = l
			break
		}
	}
	site := ""
	for _, l := range strings.Split(s, "\n") {
		l = strings.TrimSpace(l)
		if strings.HasPrefix(l, "/repo/") {
			site = l
			if i := strings.IndexByte(site, ' '); i > 0 {
				site = site[:i]
			}
			break
		}
	}
	return &violation{Property: prop, Clause: "process-crash", Detail: first + " at " + site}
}

func loadFindings(path string) []finding {
	b, err := os.ReadFile(path)
	if err != nil {
		return nil
	}
	var fs []finding
	json.Unmarshal(b, &fs)
	return fs
}

func matchKnown(fs []finding, v violation) *finding {
	for i := range fs {
		f := &fs[i]
		if f.Status == "known" && f.Property == v.Property && (f.Clause == "" || f.Clause == v.Clause) && (f.Match == "" || strings.Contains(v.Detail, f.Match)) {
			return f
		}
	}
	return nil
}

type failure struct {
	res *result
	v   violation
}

func main() {
	prop := flag.String("prop", "", "property id")
	tier := flag.String("tier", "quick", "quick | thorough")
	bin := flag.String("bin", "/verif/.build/sim.test", "simulator binary")
	replay := flag.String("replay", "", "replay a plan file")
	raceBinFlag := flag.String("racebin", "/verif/.build/sim.race.test", "simulator binary built with -race")
	raceShare := flag.Int("raceshare", 3, "for properties with a race arm: every n-th run uses the race build")
	seedFlag := flag.Uint64("seed", 0, "campaign seed (default VERIF_SEED or 1)")
	workers := flag.Int("workers", 15, "parallel simulator processes")
	budget := flag.Int("budget", 0, "seconds (0 = tier default)")
	maxRuns := flag.Int("runs", 0, "stop after this many runs (0 = budget only)")
	evidenceDir := flag.String("evidence", "/verif/evidence", "evidence directory")
	findingsPath := flag.String("findings", "/verif/known_findings.json", "known findings")
	replayDir := flag.String("replays", "/verif/replays", "where replay files go")
	regressDir := flag.String("regress", "/verif/regress", "regression corpus of plans (<prop>-*.json)")
	detTest := flag.Int("determinism", 0, "run N seeds twice and compare event-log hashes")
	flag.Parse()
	binPath = *bin
	raceBin = *raceBinFlag
	var err error
	scratch, err = os.MkdirTemp("", "campaign")
	if err != nil {
		fmt.Fprintln(os.Stderr, err)
		os.Exit(2)
	}
	defer os.RemoveAll(scratch)
	if v := os.Getenv("VERIF_TIER"); v != "" && !isFlagSet("tier") {
		*tier = v
	}
	seed := *seedFlag
	if seed == 0 {
		if v, err := strconv.ParseUint(os.Getenv("VERIF_SEED"), 10, 64); err == nil {
			seed = v
		} else {
			seed = 1
		}
	}
	findings := loadFindings(*findingsPath)

	if *replay != "" {
		os.Exit(doReplay(*prop, *replay, findings))
	}
	cfg, ok := props[*prop]
	if !ok {
		fmt.Fprintf(os.Stderr, "campaign: no check registered for %s\n", *prop)
		os.Exit(2)
	}
	if cfg.Wall > 0 {
		childWall = time.Duration(cfg.Wall) * time.Second
	}
	if *detTest > 0 {
		os.Exit(determinism(cfg, seed, *detTest, *workers))
	}
	secs := *budget
	if secs == 0 {
		secs = 60
		if cfg.Quick > 0 {
			secs = cfg.Quick
		}
		if *tier == "thorough" {
			secs = 600
			if cfg.Thorough > 0 {
				secs = cfg.Thorough
			}
		}
	}
	start := time.Now()
	deadline := start.Add(time.Duration(secs) * time.Second)

	var (
		mu        sync.Mutex
		results   []*result
		failures  []failure
		others    = map[string]int{}
		otherEx   = map[string]string{}
		undecided []string
		next      int
	)
	// Regression corpus first: the minimised plans of defects that were found
	// and repaired (and of seeded changes that were hard to find).  A plan is
	// an input like any other seed's; it is not an expectation of failure.
	nRegress := 0
	if files, _ := filepath.Glob(filepath.Join(*regressDir, *prop+"-*.json")); len(files) > 0 {
		sort.Strings(files)
		sem := make(chan struct{}, *workers)
		var rwg sync.WaitGroup
		for i, f := range files {
			rwg.Add(1)
			sem <- struct{}{}
			go func(i int, f string) {
				defer rwg.Done()
				defer func() { <-sem }()
				r := runPlanFile(f, 0, fmt.Sprintf("rg%d", i))
				r.Arm = "regress"
				r.planPath = f
				mu.Lock()
				defer mu.Unlock()
				nRegress++
				results = append(results, r)
				if r.crashed {
					if v := crashViolation(*prop, r); v != nil {
						failures = append(failures, failure{r, *v})
					} else {
						undecided = append(undecided, fmt.Sprintf("regress %s: %s", f, tail(r.stderr, 1500)))
					}
				}
				for _, v := range r.Violations {
					if v.Property == *prop {
						failures = append(failures, failure{r, v})
					}
				}
			}(i, f)
		}
		rwg.Wait()
	}
	var wg sync.WaitGroup
	for w := 0; w < *workers; w++ {
		wg.Add(1)
		go func(w int) {
			defer wg.Done()
			for {
				mu.Lock()
				i := next
				next++
				stop := time.Now().After(deadline) || (*maxRuns > 0 && i >= *maxRuns) || len(failures) >= 3
				mu.Unlock()
				if stop {
					return
				}
				rs := mix(seed*1000003 + uint64(i))
				arm := cfg.Arms[i%len(cfg.Arms)]
				if len(cfg.Rare) > 0 {
					every := max(cfg.RareEvery, len(cfg.Rare)+1)
					if k := i % every; k < len(cfg.Rare) {
						arm = cfg.Rare[k]
					}
				}
				var r *result
				if cfg.Race && *raceShare > 0 && (i/len(cfg.Arms))%*raceShare == 0 { // every arm gets its share of race-detector runs
					r = runSeedRace(rs, cfg.Focus, arm, fmt.Sprintf("w%d", w))
				} else {
					r = runSeed(rs, cfg.Focus, arm, 0, fmt.Sprintf("w%d", w))
				}
				mu.Lock()
				results = append(results, r)
				for _, rr := range r.races {
					first := rr
					if i := strings.IndexByte(rr, '\n'); i > 0 {
						first = rr[:i]
					}
					failures = append(failures, failure{r, violation{Property: *prop, Clause: "data-race", Detail: first + "\n" + rr}})
				}
				if r.crashed {
					if v := crashViolation(*prop, r); v != nil {
						failures = append(failures, failure{r, *v})
					} else {
						undecided = append(undecided, fmt.Sprintf("seed %d arm %s: %s", rs, arm, tail(r.stderr, 1500)))
					}
				}
				for _, v := range r.Violations {
					if v.Property == *prop {
						failures = append(failures, failure{r, v})
					} else {
						k := v.Property + "/" + v.Clause
						others[k]++
						if _, ok := otherEx[k]; !ok {
							otherEx[k] = fmt.Sprintf("seed %d arm %s: %s", r.Seed, r.Arm, v.Detail)
						}
					}
				}
				mu.Unlock()
			}
		}(w)
	}
	wg.Wait()
	wall := time.Since(start).Seconds()

	// classify failures
	exit := 0
	knownSeen := map[string]bool{}
	var reported []map[string]any
	seenClause := map[string]bool{}
	for _, f := range failures {
		if kf := matchKnown(findings, f.v); kf != nil {
			if !knownSeen[kf.What] {
				knownSeen[kf.What] = true
				fmt.Printf("KNOWN-FINDING: property=%s %s\n", *prop, kf.What)
			}
			continue
		}
		if seenClause[f.v.Clause] {
			continue
		}
		seenClause[f.v.Clause] = true
		path, confirmed, minimised := report(*prop, cfg, f, *replayDir, findings)
		fmt.Printf("VIOLATION property=%s replay=%s\n", *prop, path)
		fmt.Printf("  clause=%s seed=%d arm=%s confirmed_on_rerun=%v minimised=%v\n  %s\n", f.v.Clause, f.res.Seed, f.res.Arm, confirmed, minimised, f.v.Detail)
		reported = append(reported, map[string]any{"clause": f.v.Clause, "seed": f.res.Seed, "arm": f.res.Arm, "detail": f.v.Detail, "replay": path, "replay_confirmed": confirmed})
		exit = 1
	}
	if *tier == "thorough" && *budget == 0 {
		// determinism self-test as part of the thorough tier (reported, not judged)
		determinism(cfg, seed+7, 24, *workers)
	}
	writeEvidence(*evidenceDir, *prop, *tier, seed, cfg, results, wall, reported, knownSeen, others, undecided)
	for _, k := range sortedKeys(otherEx) {
		ex := otherEx[k]
		if len(ex) > 500 {
			ex = ex[:500] + "…"
		}
		fmt.Printf("note: violation of another property seen during this campaign: %s (%d) e.g. %s\n", k, others[k], ex)
	}
	good := 0
	for _, r := range results {
		if !r.crashed {
			good++
		}
	}
	fmt.Printf("campaign %s tier=%s seed=%d runs=%d ok=%d undecided=%d wall=%.1fs violations=%d\n", *prop, *tier, seed, len(results), good, len(undecided), wall, len(reported))
	if exit == 0 && (good == 0 || len(undecided) > good/2) {
		for i, u := range undecided {
			if i < 3 {
				fmt.Fprintln(os.Stderr, "UNDECIDED:", u)
			}
		}
		os.Exit(2)
	}
	os.Exit(exit)
}

func sortedKeys(m map[string]string) []string {
	ks := make([]string, 0, len(m))
	for k := range m {
		ks = append(ks, k)
	}
	sort.Strings(ks)
	return ks
}

func isFlagSet(name string) bool {
	set := false
	flag.Visit(func(f *flag.Flag) {
		if f.Name == name {
			set = true
		}
	})
	return set
}

// report confirms, minimises and writes the replay file.
func report(prop string, cfg propCfg, f failure, dir string, findings []finding) (path string, confirmed, minimised bool) {
	os.MkdirAll(dir, 0o755)
	path = filepath.Join(dir, fmt.Sprintf("%s-%d.json", prop, f.res.Seed))
	var p *plan.Plan
	var err error
	if f.res.planPath != "" {
		// a plan of the regression corpus
		path = filepath.Join(dir, fmt.Sprintf("%s-%s", prop, strings.TrimPrefix(filepath.Base(f.res.planPath), prop+"-")))
		var b []byte
		if b, err = os.ReadFile(f.res.planPath); err == nil {
			p = new(plan.Plan)
			err = json.Unmarshal(b, p)
		}
	} else {
		p, err = genPlan(f.res.Seed, f.res.Focus, f.res.Arm)
	}
	if err != nil {
		os.WriteFile(path, []byte(fmt.Sprintf(`{"error":%q}`, err.Error())), 0o644)
		return path, false, false
	}
	fails := func(pl *plan.Plan, id string) bool {
		fp := filepath.Join(scratch, "cand-"+id+".json")
		b, _ := json.Marshal(pl)
		os.WriteFile(fp, b, 0o644)
		defer os.Remove(fp)
		if f.v.Clause == "data-race" {
			useRace = true
			defer func() { useRace = false }()
		}
		r := runPlanFile(fp, 0, id)
		if f.v.Clause == "data-race" {
			return len(r.races) > 0
		}
		if r.crashed {
			v := crashViolation(prop, r)
			return v != nil && v.Clause == f.v.Clause
		}
		for _, v := range r.Violations {
			if v.Property == f.v.Property && v.Clause == f.v.Clause {
				return true
			}
		}
		return false
	}
	confirmed = fails(p, "confirm")
	minBudget = 120
	if f.v.Clause == "hang" {
		minBudget = 10 // every failing candidate costs the full wall-clock cap
	}
	if confirmed {
		if q := minimise(p, fails); q != nil {
			p = q
			minimised = true
		}
	}
	p.Note = fmt.Sprintf("violation %s/%s: %s", f.v.Property, f.v.Clause, f.v.Detail)
	b, _ := json.MarshalIndent(p, "", " ")
	os.WriteFile(path, b, 0o644)
	return path, confirmed, minimised
}

// minimise is a delta debugger over the plan: drop client operations, then
// simplify knobs and network faults, while the same (property, clause) fails.
func minimise(p *plan.Plan, fails func(*plan.Plan, string) bool) *plan.Plan {
	cur := clone(p)
	budget := minBudget
	try := func(c *plan.Plan) bool {
		if budget <= 0 {
			return false
		}
		budget--
		return fails(c, "min")
	}
	if cur.Router != nil {
		n := 2
		for len(cur.Router.Ops) >= 2 && budget > 0 {
			ops := cur.Router.Ops
			chunk := (len(ops) + n - 1) / n
			reduced := false
			for i := 0; i < len(ops); i += chunk {
				c := clone(cur)
				c.Router.Ops = append(append([]plan.ClientOp{}, ops[:i]...), ops[min(len(ops), i+chunk):]...)
				if len(c.Router.Ops) == 0 {
					continue
				}
				if try(c) {
					cur = c
					n = max(n-1, 2)
					reduced = true
					break
				}
			}
			if !reduced {
				if n >= len(ops) {
					break
				}
				n = min(len(ops), n*2)
			}
		}
	}
	if cur.Xport != nil {
		n := 2
		for len(cur.Xport.Calls) >= 2 && budget > 0 {
			calls := cur.Xport.Calls
			chunk := (len(calls) + n - 1) / n
			reduced := false
			for i := 0; i < len(calls); i += chunk {
				c := clone(cur)
				c.Xport.Calls = append(append([]plan.XCall{}, calls[:i]...), calls[min(len(calls), i+chunk):]...)
				if len(c.Xport.Calls) == 0 {
					continue
				}
				if try(c) {
					cur = c
					n = max(n-1, 2)
					reduced = true
					break
				}
			}
			if !reduced {
				if n >= len(calls) {
					break
				}
				n = min(len(calls), n*2)
			}
		}
	}
	// knobs
	for _, edit := range []func(*plan.Plan){
		func(c *plan.Plan) { c.Knobs.YieldDensity, c.Knobs.StallProb = 0, 0 },
		func(c *plan.Plan) { c.Knobs.StallProb = 0 },
		func(c *plan.Plan) { c.Knobs.GCEveryUs = 0 },
		func(c *plan.Plan) { c.Knobs.Quarantine = 0 },
		func(c *plan.Plan) { c.Knobs.GetFill = 0 },
		func(c *plan.Plan) { c.Knobs.LogDebug = false },
		func(c *plan.Plan) {
			if c.Router != nil {
				c.Router.Net.UpDrop, c.Router.Net.UpDup, c.Router.Net.UpCorrupt, c.Router.Net.UpSegMode = 0, 0, 0, 0
			}
			if c.Xport != nil {
				c.Xport.Net.UpDrop, c.Xport.Net.UpDup, c.Xport.Net.UpCorrupt, c.Xport.Net.UpSegMode = 0, 0, 0, 0
			}
		},
	} {
		c := clone(cur)
		edit(c)
		if try(c) {
			cur = c
		}
	}
	// drop tokens that no remaining op uses
	if cur.Router != nil {
		used := map[string]bool{}
		for _, o := range cur.Router.Ops {
			used[o.Token] = true
		}
		for t := range cur.Router.Tokens {
			if !used[t] {
				delete(cur.Router.Tokens, t)
			}
		}
	}
	return cur
}

func clone(p *plan.Plan) *plan.Plan {
	b, _ := json.Marshal(p)
	q := new(plan.Plan)
	json.Unmarshal(b, q)
	return q
}

func doReplay(prop, path string, findings []finding) int {
	if b, err := os.ReadFile(path); err == nil && strings.Contains(string(b), "/data-race:") {
		useRace = true
	}
	r := runPlanFile(path, 0, "replay")
	for _, rr := range r.races {
		v := violation{Property: prop, Clause: "data-race", Detail: rr}
		if kf := matchKnown(findings, v); kf != nil {
			fmt.Printf("KNOWN-FINDING: property=%s %s\n", prop, kf.What)
			continue
		}
		fmt.Printf("VIOLATION property=%s replay=%s\n  clause=data-race %s\n", prop, path, strings.SplitN(rr, "\n", 2)[0])
		return 1
	}
	if r.crashed {
		if v := crashViolation(prop, r); v != nil {
			fmt.Printf("VIOLATION property=%s replay=%s\n  %s\n", prop, path, v.Detail)
			return 1
		}
		fmt.Fprintln(os.Stderr, "replay: run died:", tail(r.stderr, 2000))
		return 2
	}
	code := 0
	for _, v := range r.Violations {
		if prop == "" || v.Property == prop {
			if kf := matchKnown(findings, v); kf != nil {
				fmt.Printf("KNOWN-FINDING: property=%s %s\n", v.Property, kf.What)
				continue
			}
			fmt.Printf("VIOLATION property=%s replay=%s\n  clause=%s %s\n", v.Property, path, v.Clause, v.Detail)
			code = 1
		}
	}
	if code == 0 {
		fmt.Println("replay: no violation")
	}
	return code
}

// determinism runs n seeds twice each and compares event-log hashes.
// detSample is filled by the thorough tier: n seeds run twice, full event-log
// hashes compared.
var detSample map[string]any

func determinism(cfg propCfg, seed uint64, n, workers int) int {
	type pair struct{ a, b string }
	res := make([]pair, n)
	var wg sync.WaitGroup
	sem := make(chan struct{}, workers)
	for i := 0; i < n; i++ {
		for k := 0; k < 2; k++ {
			wg.Add(1)
			sem <- struct{}{}
			go func(i, k int) {
				defer wg.Done()
				defer func() { <-sem }()
				rs := mix(seed*1000003 + uint64(i))
				r := runSeed(rs, cfg.Focus, cfg.Arms[i%len(cfg.Arms)], 0, fmt.Sprintf("d%d_%d", i, k))
				h := r.LogHash
				if r.crashed {
					h = "crashed"
				}
				if k == 0 {
					res[i].a = h
				} else {
					res[i].b = h
				}
			}(i, k)
		}
	}
	wg.Wait()
	agree := 0
	for i, p := range res {
		if p.a == p.b && p.a != "crashed" {
			agree++
		} else {
			fmt.Printf("determinism: seed #%d (run seed %d, arm %s) differs: %s vs %s\n", i, mix(seed*1000003+uint64(i)), cfg.Arms[i%len(cfg.Arms)], p.a, p.b)
		}
	}
	fmt.Printf("determinism: %d/%d seeds agree\n", agree, n)
	detSample = map[string]any{"seeds_run_twice": n, "identical_event_logs": agree}
	if agree == n {
		return 0
	}
	return 3
}

func writeEvidence(dir, prop, tier string, seed uint64, cfg propCfg, results []*result, wall float64, reported []map[string]any, known map[string]bool, others map[string]int, undecided []string) {
	os.MkdirAll(dir, 0o755)
	faults := map[string]int64{}
	probes := map[string]int64{}
	stats := map[string]int64{}
	sigs := map[string]bool{}
	var simNs int64
	var events uint64
	ok, crashed, exhausted := 0, 0, 0
	var seeds []uint64
	arms := map[string]int{}
	for _, r := range results {
		if r.crashed {
			crashed++
			continue
		}
		ok++
		if r.Exhausted {
			exhausted++
		}
		arms[r.Arm]++
		simNs += r.SimNs
		events += r.Events
		for k, v := range r.Faults {
			faults[k] += v
		}
		for k, v := range r.Probes {
			probes[k] += v
		}
		for k, v := range r.Stats {
			stats[k] += v
		}
		if r.Nontrivial {
			sigs[r.SigHash] = true
		}
		if len(seeds) < 40 {
			seeds = append(seeds, r.Seed)
		}
	}
	var gaps []string
	for _, p := range cfg.Probes {
		if probes[p] == 0 {
			gaps = append(gaps, p)
		}
	}
	sort.Strings(gaps)
	var samples []any
	// samples: the plans of the first two run seeds, abbreviated
	for i := 0; i < len(results) && len(samples) < 2; i++ {
		r := results[i]
		if r.crashed {
			continue
		}
		if p, err := genPlan(r.Seed, r.Focus, r.Arm); err == nil {
			samples = append(samples, abbreviate(p, r))
		}
	}
	if len(samples) == 0 {
		samples = append(samples, "no run completed")
	}
	var knownList []string
	for k := range known {
		knownList = append(knownList, k)
	}
	sort.Strings(knownList)
	ev := map[string]any{
		"property_id": prop,
		"tier":        tier,
		"seed":        seed,
		"level":       "exploration",
		"wall_s":      wall,
		"violations":  len(reported),
		"coverage": map[string]any{
			"evaluations":         max(ok, 1),
			"distinct_nontrivial": len(sigs),
			"rule": "one evaluation = one simulated run (own OS process, one synctest bubble) of a plan generated from a run seed derived from the campaign seed; " +
				"a run is non-trivial when at least one client response was observed and at least one injected fault, effective yield or second upstream exchange occurred; " +
				"distinct = distinct schedule signatures (hash over the sequence of event kinds, abstracting payloads and absolute times)",
			"samples":                        samples,
			"runs_ok":                        ok,
			"runs_died_undecided":            crashed - countCrashViolations(reported),
			"runs_event_cap":                 exhausted,
			"determinism_sample":             detSample,
			"arms":                           arms,
			"run_seeds_first":                seeds,
			"runs_per_hour":                  float64(ok) / wall * 3600,
			"simulated_seconds":              float64(simNs) / 1e9,
			"events":                         events,
			"faults_fired":                   faults,
			"probes":                         probes,
			"probe_gaps":                     gaps,
			"totals":                         stats,
			"violations_reported":            reported,
			"known_findings_seen":            knownList,
			"other_property_violations_seen": others,
			"components_real":                []string{"app/router (run, the router command line, listeners udp/tcp/tls/http/fasthttp/https/quic, handler, rules, cache ctl, limiter glue)", "internal/dnsmsg codec", "internal/cache (otter memory cache; redis.go above the client library)", "internal/domain_matcher", "internal/limiter", "internal/netlist", "internal/upstream + transport (pipeline, reuse, doh, quic)", "connpool (instrumented copy: sync->vsync)", "quic-go incl. http3 (patched copy: inclusive deadline comparisons, 1us per timer wake-up, sync->vsync in http3 client)", "crypto/tls", "net/http + x/net/http2", "fasthttp", "mapstructure / yaml / cobra (cli arm)"},
			"components_stub":                []string{"sockets (vnet simulated network)", "clock (testing/synctest fake clock)", "gnet engine (vgnet event-loop stub with gnet v2.3.6 buffer semantics)", "redis client library and server (vredis: GET/SET NX PX/PING on the fake clock, no RESP byte stream)", "gopool -> go fn()", "bytespool wrapped by poisoning layer (vbytes)", "sync.Pool of dnsmsg/router -> deterministic poisoning free list (vsync.Pool; real pool in -race builds)", "x/net/ipv6 ReadBatch (vipv6)", "udpcmsg (unsupported on simulated sockets)", "os/signal (no-op)"},
		},
		"assumptions": []string{
			"the simulated network's error model (see DESIGN.md 3.2) is what a Linux kernel would do",
			"interleavings are explored at lock boundaries, blocking operations, network events and inserted scheduling points (domain matcher, router.go), not at arbitrary instructions",
			"a clean batch is evidence from seeded sampling, not proof",
		},
	}
	if len(undecided) > 0 {
		ev["coverage"].(map[string]any)["undecided_examples"] = undecided[:min(3, len(undecided))]
	}
	b, _ := json.MarshalIndent(ev, "", " ")
	os.WriteFile(filepath.Join(dir, prop+".json"), b, 0o644)
}

func countCrashViolations(rep []map[string]any) int {
	n := 0
	for _, r := range rep {
		if r["clause"] == "process-crash" {
			n++
		}
	}
	return n
}

func abbreviate(p *plan.Plan, r *result) any {
	m := map[string]any{"run_seed": p.Seed, "family": p.Family, "arm": p.Arm, "knobs": p.Knobs, "events": r.Events, "sim_seconds": float64(r.SimNs) / 1e9, "faults": r.Faults}
	if rp := p.Router; rp != nil {
		var srv, ups []string
		for _, s := range rp.Servers {
			srv = append(srv, s.Proto+"@"+s.Listen)
		}
		for _, u := range rp.Upstreams {
			ups = append(ups, u.Addr)
		}
		m["servers"], m["upstreams"], m["rules"], m["cache"] = srv, ups, rp.Rules, rp.Cache
		m["n_ops"], m["n_conns"] = len(rp.Ops), len(rp.Conns)
		if len(rp.Ops) > 0 {
			m["first_op"] = rp.Ops[0]
			m["first_op_upstream_behaviour"] = rp.Tokens[rp.Ops[0].Token]
		}
	}
	if xp := p.Xport; xp != nil {
		var ups []string
		for _, u := range xp.Upstreams {
			ups = append(ups, u.Addr)
		}
		m["upstreams"], m["n_calls"], m["closes"], m["server_events"] = ups, len(xp.Calls), xp.Closes, xp.ServerEvents
		if len(xp.Calls) > 0 {
			m["first_call"] = xp.Calls[0]
		}
	}
	return m
}
