// simgen generates the build overlay that installs the simulator's seams into
// the *current* working tree of the repository: copies of selected files in
// which only import paths are swapped for facade packages, an export shim for
// package router, and a pinned-seed copy of the toolchain's runtime/rand.go.
//
//	simgen -repo /repo -out /verif/.build/overlay
package main

import (
	"encoding/json"
	"flag"
	"fmt"
	"go/ast"
	"go/parser"
	"go/token"
	"os"
	"path/filepath"
	"regexp"
	"runtime"
	"sort"
	"strconv"
	"strings"
)

const fac = "github.com/IrineSistiana/mosproxy/verifsim/"

type rule struct {
	dir   string
	swaps map[string][2]string // import path -> {new path, default identifier}
	// ordered lists, per file, the map expressions whose `range` statements
	// are rewritten to scheduler-independent iteration (sync.Ordered).
	ordered map[string][]string
	// yields lists the files (or "*") that get a cooperative scheduling point
	// (vsync.Y) at every function entry and loop iteration: the simulator's
	// stand-in for preemption between statements in code that takes no locks.
	yields []string
}

var rules = []rule{
	{"app/router", map[string][2]string{
		"net":                          {fac + "vnet", "net"},
		"sync":                         {fac + "vsync", "sync"},
		"os/signal":                    {fac + "vsignal", "signal"},
		"golang.org/x/net/ipv6":        {fac + "vipv6", "ipv6"},
		"github.com/panjf2000/gnet/v2": {fac + "vgnet", "gnet"},
		"github.com/IrineSistiana/mosproxy/internal/udpcmsg": {fac + "vudpcmsg", "udpcmsg"},
	}, map[string][]string{"router.go": {"r.upstreams"}}, []string{"router.go", "utils.go", "cache.go", "ecs.go", "server_udp.go", "server_tcp.go", "server_tcp_gnet_linux.go", "server_http_gohttp.go", "server_http_fasthttp.go", "server_quic.go"}},
	{"internal/upstream", map[string][2]string{
		"net": {fac + "vnet", "net"},
	}, nil, nil},
	{"internal/upstream/transport", map[string][2]string{
		"sync": {fac + "vsync", "sync"},
	}, map[string][]string{"reuse_transport.go": {"t.idleConns", "t.conns"}}, []string{"reuse_transport.go", "pipeline_conn.go", "pipeline_transport.go", "quic_transport.go", "doh_transport.go"}},
	{"internal/dnsmsg", map[string][2]string{
		"sync": {fac + "vsync", "sync"},
	}, nil, nil},
	{"internal/domain_matcher", nil, nil, []string{"*"}},
	{"internal/cache", map[string][2]string{
		"github.com/redis/rueidis": {fac + "vredis", "rueidis"},
		// the entry lock of the memory cache: a reader that leaves it too
		// early meets the backend's deletion callback only if the lock is a
		// scheduling point (the callback runs on the backend's own goroutine,
		// outside its internal mutex)
		"sync": {fac + "vsync", "sync"},
	}, nil, []string{"mem.go:stmts"}},
	// the client limiter: scheduling points at function, loop and if/else
	// block entries, but never inside function literals - those are the
	// callbacks that the concurrent map runs with a bucket lock held, and a
	// goroutine sleeping there would stop the bubble's clock
	{"internal/limiter", nil, nil, []string{"client_limiter.go:blocks"}},
	{"internal/pool", map[string][2]string{
		"github.com/IrineSistiana/bytespool": {fac + "vbytes", "bytespool"},
		"github.com/IrineSistiana/gopool":    {fac + "vgopool", "gopool"},
	}, nil, []string{"pool.go"}},
}

const routerShim = `package router

import (
	"context"
	"crypto/tls"

	"github.com/spf13/cobra"
)

// Export shim added by simgen (exists only in the simulator build).

type VRouter = router

func VRun(ctx context.Context, cfg *Config) (*VRouter, error) { return run(ctx, cfg) }

func (r *router) VClose(err error) { r.close(err) }

// VFatal returns a pending fatal error message, if any.
func (r *router) VFatal() (string, error, bool) {
	select {
	case fe := <-r.fatalErr:
		return fe.msg, fe.err, true
	default:
		return "", nil, false
	}
}

func (r *router) VCtxDone() bool { return r.ctx.Err() != nil }

// VNewRouterCmd is the router sub-command (reads and strictly decodes the
// configuration file, then run()).
func VNewRouterCmd() *cobra.Command { return newRouterCmd() }

// VMakeTlsConfig exposes the TLS option handling used for listeners and upstreams.
func VMakeTlsConfig(cfg *TlsConfig, requireCert bool) (*tls.Config, error) {
	return makeTlsConfig(cfg, requireCert)
}
`

func main() {
	repo := flag.String("repo", "/repo", "repository root")
	out := flag.String("out", "", "output directory")
	pinSeed := flag.Bool("pinseed", true, "overlay runtime/rand.go with a pinned seed")
	quicOut := flag.String("quicgo", "", "directory for the patched copy of quic-go (empty = skip)")
	flag.Parse()
	if *out == "" {
		fatal("missing -out")
	}
	must(os.MkdirAll(*out, 0o755))
	replace := map[string]string{}
	n := 0
	for _, r := range rules {
		dir := filepath.Join(*repo, r.dir)
		ents, err := os.ReadDir(dir)
		if err != nil {
			fatal("read %s: %v", dir, err)
		}
		for _, e := range ents {
			name := e.Name()
			if e.IsDir() || !strings.HasSuffix(name, ".go") || strings.HasSuffix(name, "_test.go") {
				continue
			}
			src := filepath.Join(dir, name)
			b, err := os.ReadFile(src)
			must(err)
			wantY := false
			blocksOnly, everyStmt = false, false
			for _, y := range r.yields {
				if y == "*" || y == name {
					wantY = true
				}
				if y == name+":blocks" {
					wantY, blocksOnly = true, true
				}
				if y == name+":stmts" {
					wantY, blocksOnly, everyStmt = true, true, true
				}
			}
			nb, changed, err := rewrite(src, b, r.swaps, wantY)
			if err == nil && changed {
				nb = orderRanges(nb, r.ordered[name])
				for _, e := range r.ordered[name] {
					if !strings.Contains(string(nb), "sync.Ordered("+e+")") {
						fmt.Printf("simgen: WARNING %s: no range over %s was rewritten to ordered iteration\n", name, e)
					}
				}
			}
			if err != nil {
				fatal("rewrite %s: %v", src, err)
			}
			if !changed {
				continue
			}
			dst := filepath.Join(*out, fmt.Sprintf("f%03d_%s", n, name))
			n++
			must(os.WriteFile(dst, nb, 0o644))
			replace[src] = dst
		}
	}
	shim := filepath.Join(*out, "router_shim.go")
	must(os.WriteFile(shim, []byte(routerShim), 0o644))
	replace[filepath.Join(*repo, "app/router/zz_verifsim_shim.go")] = shim

	if *pinSeed {
		rp := filepath.Join(runtime.GOROOT(), "src/runtime/rand.go")
		b, err := os.ReadFile(rp)
		must(err)
		const anchor = "\tglobalRand.state.Init(*seed)\n"
		if strings.Count(string(b), anchor) == 1 {
			nb := strings.Replace(string(b), anchor, "\tfor i := range seed { seed[i] = byte(i*7 + 1) }; globalRand.state.Init(*seed)\n", 1)
			// Randomness drawn by ordinary goroutines (select order, map
			// iteration start, map hash seeds, math/rand/v2 top-level
			// functions) comes from one process-wide stream instead of the
			// per-M state, so it does not depend on which OS thread happens
			// to run the goroutine.  Scheduler-internal draws (on g0) keep
			// the per-M state and do not disturb the stream.
			const a1 = "func rand() uint64 {\n"
			const a2 = "func cheaprand() uint32 {\n"
			if strings.Count(nb, a1) == 1 && strings.Count(nb, a2) == 1 {
				nb = strings.Replace(nb, a1, a1+"\tif gp := getg(); gp.m != nil && gp != gp.m.g0 && gp != gp.m.gsignal {\n\t\tsimRandState += 0x9e3779b97f4a7c15\n\t\tz := simRandState\n\t\tz = (z ^ (z >> 30)) * 0xbf58476d1ce4e5b9\n\t\tz = (z ^ (z >> 27)) * 0x94d049bb133111eb\n\t\treturn z ^ (z >> 31)\n\t}\n", 1)
				nb = strings.Replace(nb, a2, a2+"\tif gp := getg(); gp.m != nil && gp != gp.m.g0 && gp != gp.m.gsignal {\n\t\tsimCheapState += 0xa0761d6478bd642f\n\t\thi, lo := math.Mul64(simCheapState, simCheapState^0xe7037ed1a0b428db)\n\t\treturn uint32(hi ^ lo)\n\t}\n", 1)
				nb += "\nvar simRandState, simCheapState uint64 = 0x5eed5eed5eed5eed, 0x0123456789abcdef\n"
				fmt.Println("simgen: goroutine-level runtime randomness made thread-independent")
			} else {
				fmt.Println("simgen: WARNING rand()/cheaprand() anchors not found")
			}
			dst := filepath.Join(*out, "runtime_rand.go")
			must(os.WriteFile(dst, []byte(nb), 0o644))
			replace[rp] = dst
			fmt.Println("simgen: runtime seed pinned")
		} else {
			fmt.Println("simgen: WARNING runtime/rand.go anchor not found; seed not pinned")
		}
	}
	if *pinSeed {
		// No sysmon-driven preemption and no P hand-off during (short)
		// system calls: goroutines switch only where they block, so the
		// interleaving does not depend on machine load.
		pp := filepath.Join(runtime.GOROOT(), "src/runtime/proc.go")
		b, err := os.ReadFile(pp)
		must(err)
		const anchor = "func retake(now int64) uint32 {\n"
		if strings.Count(string(b), anchor) == 1 {
			nb := strings.Replace(string(b), anchor, anchor+"\tif retakeDisabled {\n\t\treturn 0\n\t}\n", 1) + "\nvar retakeDisabled = true\n"
			dst := filepath.Join(*out, "runtime_proc.go")
			must(os.WriteFile(dst, []byte(nb), 0o644))
			replace[pp] = dst
			fmt.Println("simgen: sysmon retake disabled")
		} else {
			fmt.Println("simgen: WARNING retake anchor not found")
		}
	}
	if *pinSeed {
		// crypto/tls of the toolchain the simulator needs (go1.26) re-validates a
		// resumed session's chain against the current RootCAs; the toolchains the
		// repository is built with by default (go1.22 / go1.23) do not.  An
		// undocumented GODEBUG setting, switched on per run, restores the older
		// library's behaviour so that what a shared session cache lets through
		// there is visible here.
		cp := filepath.Join(runtime.GOROOT(), "src/crypto/tls/common.go")
		b, err := os.ReadFile(cp)
		must(err)
		const anchor = "func anyValidVerifiedChain(verifiedChains [][]*x509.Certificate, opts x509.VerifyOptions) bool {\n"
		if strings.Count(string(b), anchor) == 1 && strings.Contains(string(b), "\"internal/godebug\"") {
			nb := strings.Replace(string(b), anchor, anchor+"\tif verifsimOldResume.Value() == \"1\" {\n\t\treturn len(verifiedChains) > 0\n\t}\n", 1) + "\nvar verifsimOldResume = godebug.New(\"#verifsimoldresume\")\n"
			dst := filepath.Join(*out, "crypto_tls_common.go")
			must(os.WriteFile(dst, []byte(nb), 0o644))
			replace[cp] = dst
			fmt.Println("simgen: crypto/tls resumption check made switchable")
		} else {
			fmt.Println("simgen: WARNING crypto/tls anchor not found")
		}
	}
	if *quicOut != "" {
		must(patchQuicGo(*repo, *quicOut))
		must(patchOtter(*repo, filepath.Join(filepath.Dir(*quicOut), "otter")))
	}
	ov, _ := json.MarshalIndent(map[string]any{"Replace": replace}, "", " ")
	must(os.WriteFile(filepath.Join(*out, "overlay.json"), ov, 0o644))
	keys := make([]string, 0, len(replace))
	for k := range replace {
		keys = append(keys, k)
	}
	sort.Strings(keys)
	fmt.Printf("simgen: %d files overlaid\n", len(keys))
}

// rewrite swaps import paths; the number of lines is unchanged and a //line
// directive keeps positions pointing at the real file.
// blocksOnly: the file being rewritten gets its scheduling points at function,
// loop and if/else block entries, and none inside function literals.
var blocksOnly bool

// everyStmt (with blocksOnly): a scheduling point in front of every statement
// of every block outside function literals - the stand-in for pre-emption
// between any two statements of code that holds no lock of its own.
var everyStmt bool

func rewrite(path string, src []byte, swaps map[string][2]string, yields bool) ([]byte, bool, error) {
	fset := token.NewFileSet()
	mode := parser.ImportsOnly | parser.ParseComments
	if yields {
		mode = parser.ParseComments
	}
	f, err := parser.ParseFile(fset, path, src, mode)
	if err != nil {
		return nil, false, err
	}
	type edit struct {
		start, end int
		text       string
	}
	var edits []edit
	if yields {
		// a scheduling point after the opening brace of every function body
		// and loop body (same line: positions are unchanged)
		n := 0
		ast.Inspect(f, func(nd ast.Node) bool {
			var body *ast.BlockStmt
			switch x := nd.(type) {
			case *ast.FuncDecl:
				if x.Name.Name == "init" {
					return false
				}
				body = x.Body
			case *ast.FuncLit:
				if blocksOnly {
					return false
				}
				body = x.Body
			case *ast.BlockStmt:
				if everyStmt {
					for i, st := range x.List {
						if i == 0 {
							continue // the block's own entry point covers it
						}
						off := fset.Position(st.Pos()).Offset
						edits = append(edits, edit{off, off, "vsimy.Y(); "})
						n++
					}
				}
			case *ast.IfStmt:
				if blocksOnly {
					off := fset.Position(x.Body.Lbrace).Offset + 1
					edits = append(edits, edit{off, off, " vsimy.Y();"})
					n++
					if eb, ok := x.Else.(*ast.BlockStmt); ok {
						off := fset.Position(eb.Lbrace).Offset + 1
						edits = append(edits, edit{off, off, " vsimy.Y();"})
					}
				}
			case *ast.ForStmt:
				body = x.Body
			case *ast.RangeStmt:
				body = x.Body
			}
			if body != nil {
				off := fset.Position(body.Lbrace).Offset + 1
				edits = append(edits, edit{off, off, " vsimy.Y();"})
				n++
			}
			return true
		})
		if n > 0 {
			imp := "vsimy " + strconv.Quote(fac+"vsync")
			if len(f.Decls) > 0 {
				if gd, ok := f.Decls[0].(*ast.GenDecl); ok && gd.Tok == token.IMPORT && gd.Lparen.IsValid() {
					off := fset.Position(gd.Lparen).Offset + 1
					edits = append(edits, edit{off, off, imp + ";"})
				} else {
					off := fset.Position(f.Name.End()).Offset
					edits = append(edits, edit{off, off, "; import " + imp})
				}
			}
		}
	}
	for _, im := range f.Imports {
		p, _ := strconv.Unquote(im.Path.Value)
		sw, ok := swaps[p]
		if !ok {
			continue
		}
		text := strconv.Quote(sw[0])
		if im.Name == nil {
			text = sw[1] + " " + text
		}
		edits = append(edits, edit{fset.Position(im.Path.Pos()).Offset, fset.Position(im.Path.End()).Offset, text})
	}
	if len(edits) == 0 {
		return src, false, nil
	}
	sort.Slice(edits, func(i, j int) bool { return edits[i].start > edits[j].start })
	out := append([]byte(nil), src...)
	for _, e := range edits {
		out = append(out[:e.start], append([]byte(e.text), out[e.end:]...)...)
	}
	// The //line directive must not precede a //go:build line; put it right
	// before the package clause instead (same line, using the /*line*/ form).
	pkgOff := fset.Position(f.Package).Offset
	pos := fset.Position(f.Package)
	dir := fmt.Sprintf("/*line %s:%d:%d*/", path, pos.Line, pos.Column)
	out = append(out[:pkgOff], append([]byte(dir), out[pkgOff:]...)...)
	return out, true, nil
}

// patchQuicGo copies the quic-go version pinned by the repository's go.mod
// out of the module cache (non-test Go files only) and fixes one comparison:
// the connection's run loop handles a loss-detection timeout only if it is
// strictly before time.Now().  Under a fake clock a timer fires exactly at
// its deadline, so Now() == timeout, the timeout is never handled, the timer
// is re-armed for the same instant and the loop spins forever.  (The go
// command refuses -overlay for files in the module cache, hence a replace.)
func patchQuicGo(repo, out string) error {
	gm, err := os.ReadFile(filepath.Join(repo, "go.mod"))
	if err != nil {
		return err
	}
	m := regexp.MustCompile(`github.com/quic-go/quic-go (v[0-9][^\s]*)`).FindSubmatch(gm)
	if m == nil {
		return fmt.Errorf("quic-go version not found in go.mod")
	}
	cache := os.Getenv("GOMODCACHE")
	if cache == "" {
		home, _ := os.UserHomeDir()
		cache = filepath.Join(home, "go", "pkg", "mod")
	}
	src := filepath.Join(cache, "github.com", "quic-go", "quic-go@"+string(m[1]))
	stamp := filepath.Join(out, ".version")
	if b, err := os.ReadFile(stamp); err == nil && string(b) == string(m[1]) {
		return nil // already there
	}
	os.RemoveAll(out)
	patched := false
	err = filepath.Walk(src, func(p string, info os.FileInfo, err error) error {
		if err != nil {
			return err
		}
		rel, _ := filepath.Rel(src, p)
		if info.IsDir() {
			switch rel {
			case "integrationtests", "example", "fuzzing", "interop", "docs", ".github", ".circleci":
				return filepath.SkipDir
			}
			return os.MkdirAll(filepath.Join(out, rel), 0o755)
		}
		base := filepath.Base(p)
		if strings.HasSuffix(base, "_test.go") || !(strings.HasSuffix(base, ".go") || base == "go.mod" || base == "go.sum" || base == "LICENSE") {
			return nil
		}
		b, err := os.ReadFile(p)
		if err != nil {
			return err
		}
		if rel == "connection.go" {
			const anchor = "!timeout.IsZero() && timeout.Before(now) {"
			const anchor2 = "(s.handshakeComplete && now.After(s.nextIdleTimeoutTime())) {"
			if strings.Count(string(b), anchor) == 1 && strings.Count(string(b), anchor2) == 1 {
				b = []byte(strings.Replace(string(b), anchor, "!timeout.IsZero() && !timeout.After(now) {", 1))
				// same for the idle time-out: "now.After(deadline)" never holds when the timer fires exactly at the deadline
				b = []byte(strings.Replace(string(b), anchor2, "(s.handshakeComplete && !now.Before(s.nextIdleTimeoutTime())) {", 1))
				patched = true
			}
			// The run loop assumes that time moves on between iterations: when a
			// deadline (pacing budget, ack alarm, ...) is re-armed for an instant
			// that is not after Now(), the timer fires at once and the loop
			// spins; with real time that resolves itself, under a fake clock it
			// never does.  Let one microsecond of fake time pass per timer wake-up.
			const anchor3 = "\t\t\tcase <-s.timer.Chan():\n\t\t\t\ts.timer.SetRead()\n"
			if strings.Count(string(b), anchor3) == 1 {
				b = []byte(strings.Replace(string(b), anchor3, anchor3+"\t\t\t\ttime.Sleep(time.Microsecond)\n", 1))
			} else {
				fmt.Println("simgen: WARNING quic-go timer anchor not found")
			}
		}
		if rel == filepath.Join("http3", "client.go") {
			// The HTTP/3 client dials inside a sync.Once: concurrent requests
			// block on the Once's mutex while the first one waits for the
			// network.  A goroutine blocked on a real mutex is not "durably
			// blocked" for synctest, so the bubble's clock would never advance.
			const imp = "\t\"sync\"\n"
			if strings.Count(string(b), imp) == 1 {
				b = []byte(strings.Replace(string(b), imp, "\tsync \""+fac+"vsync\"\n", 1))
			} else {
				fmt.Println("simgen: WARNING http3/client.go sync import not found")
			}
		}
		return os.WriteFile(filepath.Join(out, rel), b, 0o644)
	})
	if err != nil {
		return err
	}
	if !patched {
		fmt.Println("simgen: WARNING quic-go anchor not found; copy is unpatched")
	} else {
		fmt.Println("simgen: quic-go", string(m[1]), "copied and patched (loss-detection timeout at exactly Now)")
	}
	return os.WriteFile(stamp, m[1], 0o644)
}

// patchOtter copies the otter version pinned by the repository's go.mod out
// of the module cache and turns one constant into a knob: the cache applies
// writes (and calls the deletion listener for replaced, deleted and evicted
// entries) in batches of 64 write tasks.  A run of a few dozen queries never
// fills a batch, so the listener - the only caller of the repository's
// releaseEntry besides expiry - would never run.  The batch size becomes a
// per-run knob (1, 4, 16 or the shipped 64); nothing else changes.
func patchOtter(repo, out string) error {
	gm, err := os.ReadFile(filepath.Join(repo, "go.mod"))
	if err != nil {
		return err
	}
	m := regexp.MustCompile(`github.com/maypok86/otter (v[0-9][^\s]*)`).FindSubmatch(gm)
	if m == nil {
		return fmt.Errorf("otter version not found in go.mod")
	}
	cache := os.Getenv("GOMODCACHE")
	if cache == "" {
		home, _ := os.UserHomeDir()
		cache = filepath.Join(home, "go", "pkg", "mod")
	}
	src := filepath.Join(cache, "github.com", "maypok86", "otter@"+string(m[1]))
	stamp := filepath.Join(out, ".version")
	if b, err := os.ReadFile(stamp); err == nil && string(b) == string(m[1])+" knob2" {
		return nil
	}
	os.RemoveAll(out)
	patched := false
	err = filepath.Walk(src, func(p string, info os.FileInfo, err error) error {
		if err != nil {
			return err
		}
		rel, _ := filepath.Rel(src, p)
		if info.IsDir() {
			switch rel {
			case "cmd", "assets", "scripts", ".github":
				return filepath.SkipDir
			}
			return os.MkdirAll(filepath.Join(out, rel), 0o755)
		}
		base := filepath.Base(p)
		if strings.HasSuffix(base, "_test.go") || !(strings.HasSuffix(base, ".go") || base == "go.mod" || base == "go.sum" || base == "LICENSE") {
			return nil
		}
		b, err := os.ReadFile(p)
		if err != nil {
			return err
		}
		if rel == filepath.Join("internal", "core", "cache.go") {
			const anchor = "\tbufferCapacity := 64\n"
			if strings.Count(string(b), anchor) == 2 { // the write loop and the expiry sweep
				b = []byte(strings.ReplaceAll(string(b), anchor, "\tbufferCapacity := SimBatch\n") + "\n// SimBatch is the number of write tasks applied together (simulation knob).\nvar SimBatch = 64\n")
				patched = true
			}
			// the expiry sweep and the cache's one-second clock both wake at
			// whole seconds, and which of the two goes first - the sweep seeing
			// the new second or the old one - is a toss-up that nothing owns:
			// the sweep's phase against the clock becomes a knob
			const sweep = "\t\ttime.Sleep(time.Second)\n"
			if strings.Count(string(b), sweep) == 1 {
				b = []byte(strings.Replace(string(b), sweep, "\t\ttime.Sleep(time.Second + simSkewOnce())\n", 1) + "\n// SimSkew shifts the expiry sweep against the one-second clock (simulation knob).\nvar SimSkew time.Duration\n\nfunc simSkewOnce() time.Duration {\n\td := SimSkew\n\tSimSkew = 0\n\treturn d\n}\n")
			} else {
				fmt.Println("simgen: WARNING otter expiry sweep anchor not found")
			}
		}
		return os.WriteFile(filepath.Join(out, rel), b, 0o644)
	})
	if err != nil {
		return err
	}
	if !patched {
		return fmt.Errorf("otter: batch-size anchor not found")
	}
	knob := "package otter\n\nimport (\n\t\"time\"\n\n\t\"github.com/maypok86/otter/internal/core\"\n)\n\n// SetSimBatch sets the write batch size of caches built afterwards (simulation knob).\nfunc SetSimBatch(n int) {\n\tif n > 0 {\n\t\tcore.SimBatch = n\n\t}\n}\n\n// SetSimSkew shifts the expiry sweep of the cache built next against the one-second clock.\nfunc SetSimSkew(d time.Duration) { core.SimSkew = d }\n"
	if err := os.WriteFile(filepath.Join(out, "simknob.go"), []byte(knob), 0o644); err != nil {
		return err
	}
	fmt.Println("simgen: otter", string(m[1]), "copied, write batch size is a knob")
	return os.WriteFile(stamp, []byte(string(m[1])+" knob2"), 0o644)
}

// (the inserted scheduling point, if any, follows the brace on the same line)
var rangeRe = regexp.MustCompile(`(?m)^(\s*)for (\w+)(?:, (\w+))? := range ([\w.]+) \{( vsimy\.Y\(\);)?[ \t]*$`)

// orderRanges rewrites `for k[, v] := range <expr> {` for the listed map
// expressions; the line count is unchanged.
func orderRanges(src []byte, exprs []string) []byte {
	if len(exprs) == 0 {
		return src
	}
	want := map[string]bool{}
	for _, e := range exprs {
		want[e] = true
	}
	return rangeRe.ReplaceAllFunc(src, func(m []byte) []byte {
		sm := rangeRe.FindSubmatch(m)
		expr := string(sm[4])
		if !want[expr] {
			return m
		}
		k, v := string(sm[2]), string(sm[3])
		out := fmt.Sprintf("%sfor _, %s := range sync.Ordered(%s) {", sm[1], k, expr)
		if k == "_" {
			k = "k__"
			out = fmt.Sprintf("%sfor _, %s := range sync.Ordered(%s) {", sm[1], k, expr)
		}
		if v != "" && v != "_" {
			out += fmt.Sprintf(" %s := %s[%s];", v, expr, k)
		}
		out += string(sm[5])
		return []byte(out)
	})
}

func must(err error) {
	if err != nil {
		fatal("%v", err)
	}
}

func fatal(f string, a ...any) {
	fmt.Fprintf(os.Stderr, "simgen: "+f+"\n", a...)
	os.Exit(2)
}
