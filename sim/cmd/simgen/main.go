// simgen generates the build overlay that installs the simulator's seams into
// the *current* working tree of the repository: copies of selected files in
// which only import paths are swapped for facade packages, an export shim for
// package router, and a pinned-seed copy of the toolchain's runtime/rand.go.
//
//	simgen -repo /repo -out /verif/.build/overlay
package main

import (
	"encoding/json"
	"flag"
	"fmt"
	"go/parser"
	"go/token"
	"os"
	"path/filepath"
	"regexp"
	"runtime"
	"sort"
	"strconv"
	"strings"
)

const fac = "github.com/IrineSistiana/mosproxy/verifsim/"

type rule struct {
	dir   string
	swaps map[string][2]string // import path -> {new path, default identifier}
	// ordered lists, per file, the map expressions whose `range` statements
	// are rewritten to scheduler-independent iteration (sync.Ordered).
	ordered map[string][]string
}

var rules = []rule{
	{"app/router", map[string][2]string{
		"net":                          {fac + "vnet", "net"},
		"sync":                         {fac + "vsync", "sync"},
		"golang.org/x/net/ipv6":        {fac + "vipv6", "ipv6"},
		"github.com/panjf2000/gnet/v2": {fac + "vgnet", "gnet"},
		"github.com/IrineSistiana/mosproxy/internal/udpcmsg": {fac + "vudpcmsg", "udpcmsg"},
	}, map[string][]string{"router.go": {"r.upstreams"}}},
	{"internal/upstream", map[string][2]string{
		"net": {fac + "vnet", "net"},
	}, nil},
	{"internal/upstream/transport", map[string][2]string{
		"sync": {fac + "vsync", "sync"},
	}, map[string][]string{"reuse_transport.go": {"t.idleConns", "t.conns"}}},
	{"internal/pool", map[string][2]string{
		"github.com/IrineSistiana/bytespool": {fac + "vbytes", "bytespool"},
		"github.com/IrineSistiana/gopool":    {fac + "vgopool", "gopool"},
	}, nil},
}

const routerShim = `package router

import (
	"context"
	"crypto/tls"
)

// Export shim added by simgen (exists only in the simulator build).

type VRouter = router

func VRun(ctx context.Context, cfg *Config) (*VRouter, error) { return run(ctx, cfg) }

func (r *router) VClose(err error) { r.close(err) }

// VFatal returns a pending fatal error message, if any.
func (r *router) VFatal() (string, error, bool) {
	select {
	case fe := <-r.fatalErr:
		return fe.msg, fe.err, true
	default:
		return "", nil, false
	}
}

func (r *router) VCtxDone() bool { return r.ctx.Err() != nil }

// VMakeTlsConfig exposes the TLS option handling used for listeners and upstreams.
func VMakeTlsConfig(cfg *TlsConfig, requireCert bool) (*tls.Config, error) {
	return makeTlsConfig(cfg, requireCert)
}
`

func main() {
	repo := flag.String("repo", "/repo", "repository root")
	out := flag.String("out", "", "output directory")
	pinSeed := flag.Bool("pinseed", true, "overlay runtime/rand.go with a pinned seed")
	flag.Parse()
	if *out == "" {
		fatal("missing -out")
	}
	must(os.MkdirAll(*out, 0o755))
	replace := map[string]string{}
	n := 0
	for _, r := range rules {
		dir := filepath.Join(*repo, r.dir)
		ents, err := os.ReadDir(dir)
		if err != nil {
			fatal("read %s: %v", dir, err)
		}
		for _, e := range ents {
			name := e.Name()
			if e.IsDir() || !strings.HasSuffix(name, ".go") || strings.HasSuffix(name, "_test.go") {
				continue
			}
			src := filepath.Join(dir, name)
			b, err := os.ReadFile(src)
			must(err)
			nb, changed, err := rewrite(src, b, r.swaps)
			if err == nil && changed {
				nb = orderRanges(nb, r.ordered[name])
			}
			if err != nil {
				fatal("rewrite %s: %v", src, err)
			}
			if !changed {
				continue
			}
			dst := filepath.Join(*out, fmt.Sprintf("f%03d_%s", n, name))
			n++
			must(os.WriteFile(dst, nb, 0o644))
			replace[src] = dst
		}
	}
	shim := filepath.Join(*out, "router_shim.go")
	must(os.WriteFile(shim, []byte(routerShim), 0o644))
	replace[filepath.Join(*repo, "app/router/zz_verifsim_shim.go")] = shim

	if *pinSeed {
		rp := filepath.Join(runtime.GOROOT(), "src/runtime/rand.go")
		b, err := os.ReadFile(rp)
		must(err)
		const anchor = "\tglobalRand.state.Init(*seed)\n"
		if strings.Count(string(b), anchor) == 1 {
			nb := strings.Replace(string(b), anchor, "\tfor i := range seed { seed[i] = byte(i*7 + 1) }; globalRand.state.Init(*seed)\n", 1)
			// Randomness drawn by ordinary goroutines (select order, map
			// iteration start, map hash seeds, math/rand/v2 top-level
			// functions) comes from one process-wide stream instead of the
			// per-M state, so it does not depend on which OS thread happens
			// to run the goroutine.  Scheduler-internal draws (on g0) keep
			// the per-M state and do not disturb the stream.
			const a1 = "func rand() uint64 {\n"
			const a2 = "func cheaprand() uint32 {\n"
			if strings.Count(nb, a1) == 1 && strings.Count(nb, a2) == 1 {
				nb = strings.Replace(nb, a1, a1+"\tif gp := getg(); gp.m != nil && gp != gp.m.g0 && gp != gp.m.gsignal {\n\t\tsimRandState += 0x9e3779b97f4a7c15\n\t\tz := simRandState\n\t\tz = (z ^ (z >> 30)) * 0xbf58476d1ce4e5b9\n\t\tz = (z ^ (z >> 27)) * 0x94d049bb133111eb\n\t\treturn z ^ (z >> 31)\n\t}\n", 1)
				nb = strings.Replace(nb, a2, a2+"\tif gp := getg(); gp.m != nil && gp != gp.m.g0 && gp != gp.m.gsignal {\n\t\tsimCheapState += 0xa0761d6478bd642f\n\t\thi, lo := math.Mul64(simCheapState, simCheapState^0xe7037ed1a0b428db)\n\t\treturn uint32(hi ^ lo)\n\t}\n", 1)
				nb += "\nvar simRandState, simCheapState uint64 = 0x5eed5eed5eed5eed, 0x0123456789abcdef\n"
				fmt.Println("simgen: goroutine-level runtime randomness made thread-independent")
			} else {
				fmt.Println("simgen: WARNING rand()/cheaprand() anchors not found")
			}
			dst := filepath.Join(*out, "runtime_rand.go")
			must(os.WriteFile(dst, []byte(nb), 0o644))
			replace[rp] = dst
			fmt.Println("simgen: runtime seed pinned")
		} else {
			fmt.Println("simgen: WARNING runtime/rand.go anchor not found; seed not pinned")
		}
	}
	if *pinSeed {
		// No sysmon-driven preemption and no P hand-off during (short)
		// system calls: goroutines switch only where they block, so the
		// interleaving does not depend on machine load.
		pp := filepath.Join(runtime.GOROOT(), "src/runtime/proc.go")
		b, err := os.ReadFile(pp)
		must(err)
		const anchor = "func retake(now int64) uint32 {\n"
		if strings.Count(string(b), anchor) == 1 {
			nb := strings.Replace(string(b), anchor, anchor+"\tif retakeDisabled {\n\t\treturn 0\n\t}\n", 1) + "\nvar retakeDisabled = true\n"
			dst := filepath.Join(*out, "runtime_proc.go")
			must(os.WriteFile(dst, []byte(nb), 0o644))
			replace[pp] = dst
			fmt.Println("simgen: sysmon retake disabled")
		} else {
			fmt.Println("simgen: WARNING retake anchor not found")
		}
	}
	ov, _ := json.MarshalIndent(map[string]any{"Replace": replace}, "", " ")
	must(os.WriteFile(filepath.Join(*out, "overlay.json"), ov, 0o644))
	keys := make([]string, 0, len(replace))
	for k := range replace {
		keys = append(keys, k)
	}
	sort.Strings(keys)
	fmt.Printf("simgen: %d files overlaid\n", len(keys))
}

// rewrite swaps import paths; the number of lines is unchanged and a //line
// directive keeps positions pointing at the real file.
func rewrite(path string, src []byte, swaps map[string][2]string) ([]byte, bool, error) {
	fset := token.NewFileSet()
	f, err := parser.ParseFile(fset, path, src, parser.ImportsOnly|parser.ParseComments)
	if err != nil {
		return nil, false, err
	}
	type edit struct {
		start, end int
		text       string
	}
	var edits []edit
	for _, im := range f.Imports {
		p, _ := strconv.Unquote(im.Path.Value)
		sw, ok := swaps[p]
		if !ok {
			continue
		}
		text := strconv.Quote(sw[0])
		if im.Name == nil {
			text = sw[1] + " " + text
		}
		edits = append(edits, edit{fset.Position(im.Path.Pos()).Offset, fset.Position(im.Path.End()).Offset, text})
	}
	if len(edits) == 0 {
		return src, false, nil
	}
	sort.Slice(edits, func(i, j int) bool { return edits[i].start > edits[j].start })
	out := append([]byte(nil), src...)
	for _, e := range edits {
		out = append(out[:e.start], append([]byte(e.text), out[e.end:]...)...)
	}
	// The //line directive must not precede a //go:build line; put it right
	// before the package clause instead (same line, using the /*line*/ form).
	pkgOff := fset.Position(f.Package).Offset
	pos := fset.Position(f.Package)
	dir := fmt.Sprintf("/*line %s:%d:%d*/", path, pos.Line, pos.Column)
	out = append(out[:pkgOff], append([]byte(dir), out[pkgOff:]...)...)
	return out, true, nil
}

var rangeRe = regexp.MustCompile(`(?m)^(\s*)for (\w+)(?:, (\w+))? := range ([\w.]+) \{[ \t]*$`)

// orderRanges rewrites `for k[, v] := range <expr> {` for the listed map
// expressions; the line count is unchanged.
func orderRanges(src []byte, exprs []string) []byte {
	if len(exprs) == 0 {
		return src
	}
	want := map[string]bool{}
	for _, e := range exprs {
		want[e] = true
	}
	return rangeRe.ReplaceAllFunc(src, func(m []byte) []byte {
		sm := rangeRe.FindSubmatch(m)
		expr := string(sm[4])
		if !want[expr] {
			return m
		}
		k, v := string(sm[2]), string(sm[3])
		out := fmt.Sprintf("%sfor _, %s := range sync.Ordered(%s) {", sm[1], k, expr)
		if k == "_" {
			k = "k__"
			out = fmt.Sprintf("%sfor _, %s := range sync.Ordered(%s) {", sm[1], k, expr)
		}
		if v != "" && v != "_" {
			out += fmt.Sprintf(" %s := %s[%s];", v, expr, k)
		}
		return []byte(out)
	})
}

func must(err error) {
	if err != nil {
		fatal("%v", err)
	}
}

func fatal(f string, a ...any) {
	fmt.Fprintf(os.Stderr, "simgen: "+f+"\n", a...)
	os.Exit(2)
}
