// Package refdns is the harness's own DNS wire codec, written independently
// of the code under test.  Names are kept octet-exact in uncompressed wire
// form (with the terminating zero octet); RDATA of the eight record types the
// proxy interprets is kept in canonical, decompressed form; every other type
// is opaque.  Parse is strict: counts must match the records present and no
// byte may trail the message.
package refdns

import (
	"bytes"
	"encoding/binary"
	"errors"
	"fmt"
	"strings"
)

const (
	TypeA     = 1
	TypeNS    = 2
	TypeCNAME = 5
	TypeSOA   = 6
	TypePTR   = 12
	TypeMX    = 15
	TypeTXT   = 16
	TypeAAAA  = 28
	TypeSRV   = 33
	TypeOPT   = 41

	BitQR = 1 << 15
	BitAA = 1 << 10
	BitTC = 1 << 9
	BitRD = 1 << 8
	BitRA = 1 << 7
	BitZ  = 1 << 6
	BitAD = 1 << 5
	BitCD = 1 << 4
)

type Name []byte

type Question struct {
	Name  Name
	Type  uint16
	Class uint16
}

type RR struct {
	Name  Name
	Type  uint16
	Class uint16
	TTL   uint32
	Data  []byte
}

type Msg struct {
	ID   uint16
	Bits uint16
	Q    []Question
	An   []RR
	Ns   []RR
	Ar   []RR
}

func (m *Msg) Opcode() int         { return int(m.Bits>>11) & 0xF }
func (m *Msg) Rcode() int          { return int(m.Bits & 0xF) }
func (m *Msg) Has(bit uint16) bool { return m.Bits&bit != 0 }

// ---- names ----

var Root = Name{0}

func NameFromLabels(labels ...[]byte) Name {
	var n Name
	for _, l := range labels {
		n = append(n, byte(len(l)))
		n = append(n, l...)
	}
	return append(n, 0)
}

// NameFromString parses a plain dotted name (no escapes).
func NameFromString(s string) Name {
	s = strings.TrimSuffix(s, ".")
	if s == "" {
		return Name{0}
	}
	var ls [][]byte
	for _, p := range strings.Split(s, ".") {
		ls = append(ls, []byte(p))
	}
	return NameFromLabels(ls...)
}

func (n Name) Labels() [][]byte {
	var out [][]byte
	for i := 0; i < len(n); {
		l := int(n[i])
		if l == 0 || i+1+l > len(n) {
			break
		}
		out = append(out, []byte(n[i+1:i+1+l]))
		i += 1 + l
	}
	return out
}

func (n Name) Lower() Name {
	o := append(Name(nil), n...)
	for i := 0; i < len(o); {
		l := int(o[i])
		if l == 0 || i+1+l > len(o) {
			break
		}
		for j := i + 1; j < i+1+l; j++ {
			if 'A' <= o[j] && o[j] <= 'Z' {
				o[j] += 'a' - 'A'
			}
		}
		i += 1 + l
	}
	return o
}

func (n Name) Equal(o Name) bool     { return bytes.Equal(n, o) }
func (n Name) EqualFold(o Name) bool { return bytes.Equal(n.Lower(), o.Lower()) }

// String renders the name with \DDD escapes (dots and backslashes escaped).
func (n Name) String() string {
	ls := n.Labels()
	if len(ls) == 0 {
		return "."
	}
	var sb strings.Builder
	for i, l := range ls {
		if i > 0 {
			sb.WriteByte('.')
		}
		for _, c := range l {
			switch {
			case c == '.' || c == '\\':
				sb.WriteByte('\\')
				sb.WriteByte(c)
			case ('a' <= c && c <= 'z') || ('A' <= c && c <= 'Z') || ('0' <= c && c <= '9') || c == '-' || c == '_':
				sb.WriteByte(c)
			default:
				fmt.Fprintf(&sb, "\\%03d", c)
			}
		}
	}
	return sb.String()
}

// Valid reports whether n is a well-formed uncompressed name (≤255 octets, labels 1..63).
func (n Name) Valid() bool {
	if len(n) == 0 || len(n) > 255 {
		return false
	}
	i := 0
	for {
		if i >= len(n) {
			return false
		}
		l := int(n[i])
		if l == 0 {
			return i == len(n)-1
		}
		if l > 63 {
			return false
		}
		i += 1 + l
	}
}

// ---- parsing ----

var (
	ErrShort    = errors.New("refdns: short message")
	ErrTrailing = errors.New("refdns: trailing bytes")
	ErrName     = errors.New("refdns: bad name")
	ErrRdata    = errors.New("refdns: bad rdata")
)

func readName(msg []byte, off int) (Name, int, error) {
	var n Name
	ptrs := 0
	end := -1
	for {
		if off >= len(msg) {
			return nil, 0, ErrName
		}
		c := int(msg[off])
		off++
		switch c & 0xC0 {
		case 0:
			if c == 0 {
				n = append(n, 0)
				if end < 0 {
					end = off
				}
				if len(n) > 255 {
					return nil, 0, ErrName
				}
				return n, end, nil
			}
			if off+c > len(msg) {
				return nil, 0, ErrName
			}
			n = append(n, byte(c))
			n = append(n, msg[off:off+c]...)
			off += c
			if len(n) > 254 {
				return nil, 0, ErrName
			}
		case 0xC0:
			if off >= len(msg) {
				return nil, 0, ErrName
			}
			p := (c&0x3F)<<8 | int(msg[off])
			off++
			if end < 0 {
				end = off
			}
			ptrs++
			if ptrs > 126 {
				return nil, 0, ErrName
			}
			off = p
		default:
			return nil, 0, ErrName
		}
	}
}

func canonRdata(msg []byte, off, l int, typ uint16) ([]byte, error) {
	end := off + l
	switch typ {
	case TypeNS, TypeCNAME, TypePTR:
		n, o, err := readName(msg, off)
		if err != nil || o != end {
			return nil, ErrRdata
		}
		return n, nil
	case TypeMX:
		if l < 3 {
			return nil, ErrRdata
		}
		n, o, err := readName(msg, off+2)
		if err != nil || o != end {
			return nil, ErrRdata
		}
		return append(append([]byte(nil), msg[off:off+2]...), n...), nil
	case TypeSRV:
		if l < 7 {
			return nil, ErrRdata
		}
		n, o, err := readName(msg, off+6)
		if err != nil || o != end {
			return nil, ErrRdata
		}
		return append(append([]byte(nil), msg[off:off+6]...), n...), nil
	case TypeSOA:
		n1, o, err := readName(msg, off)
		if err != nil || o > end {
			return nil, ErrRdata
		}
		n2, o, err := readName(msg, o)
		if err != nil || o+20 != end {
			return nil, ErrRdata
		}
		out := append([]byte(nil), n1...)
		out = append(out, n2...)
		return append(out, msg[o:end]...), nil
	case TypeA:
		if l != 4 {
			return nil, ErrRdata
		}
	case TypeAAAA:
		if l != 16 {
			return nil, ErrRdata
		}
	}
	return append([]byte(nil), msg[off:end]...), nil
}

// Parse decodes strictly.
func Parse(b []byte) (*Msg, error) {
	if len(b) < 12 {
		return nil, ErrShort
	}
	m := &Msg{ID: binary.BigEndian.Uint16(b), Bits: binary.BigEndian.Uint16(b[2:])}
	qd := int(binary.BigEndian.Uint16(b[4:]))
	cnt := [3]int{int(binary.BigEndian.Uint16(b[6:])), int(binary.BigEndian.Uint16(b[8:])), int(binary.BigEndian.Uint16(b[10:]))}
	off := 12
	for i := 0; i < qd; i++ {
		n, o, err := readName(b, off)
		if err != nil {
			return nil, fmt.Errorf("question %d: %w", i, err)
		}
		if o+4 > len(b) {
			return nil, ErrShort
		}
		m.Q = append(m.Q, Question{n, binary.BigEndian.Uint16(b[o:]), binary.BigEndian.Uint16(b[o+2:])})
		off = o + 4
	}
	secs := [3]*[]RR{&m.An, &m.Ns, &m.Ar}
	for s := 0; s < 3; s++ {
		for i := 0; i < cnt[s]; i++ {
			n, o, err := readName(b, off)
			if err != nil {
				return nil, fmt.Errorf("section %d rr %d: %w", s, i, err)
			}
			if o+10 > len(b) {
				return nil, ErrShort
			}
			rr := RR{Name: n, Type: binary.BigEndian.Uint16(b[o:]), Class: binary.BigEndian.Uint16(b[o+2:]), TTL: binary.BigEndian.Uint32(b[o+4:])}
			l := int(binary.BigEndian.Uint16(b[o+8:]))
			o += 10
			if o+l > len(b) {
				return nil, ErrShort
			}
			d, err := canonRdata(b, o, l, rr.Type)
			if err != nil {
				return nil, fmt.Errorf("section %d rr %d type %d: %w", s, i, rr.Type, err)
			}
			rr.Data = d
			*secs[s] = append(*secs[s], rr)
			off = o + l
		}
	}
	if off != len(b) {
		return nil, ErrTrailing
	}
	return m, nil
}

// ---- packing ----

// PackOpts controls how Pack lays names out.
type PackOpts struct {
	CompressOwner bool // compress question/owner names
	CompressRdata bool // compress names inside NS/CNAME/PTR/MX/SOA RDATA
	CompressSRV   bool // also compress SRV targets (legal to receive)
}

type packer struct {
	b   []byte
	tbl map[string]int
	// dep: through how many pointers the name at tbl[suffix] is read.  A
	// well-behaved server does not build chains that decoders refuse to follow
	// (ten pointers is a common limit): a suffix reached through maxChain
	// pointers is written out again instead of being pointed at.
	dep map[string]int
}

const maxChain = 8

func (p *packer) name(n Name, compress bool) {
	if p.dep == nil {
		p.dep = map[string]int{}
	}
	var added []string
	depth := 0
	defer func() {
		for _, s := range added {
			p.dep[s] = depth
		}
	}()
	for i := 0; i < len(n); {
		l := int(n[i])
		if l == 0 {
			break
		}
		suffix := string(n[i:])
		off, known := p.tbl[suffix]
		if compress && known && p.dep[suffix] < maxChain {
			p.b = append(p.b, byte(0xC0|off>>8), byte(off))
			depth = p.dep[suffix] + 1
			return
		}
		if len(p.b) < 0x4000 {
			if !known || p.dep[suffix] >= maxChain {
				p.tbl[suffix] = len(p.b)
				added = append(added, suffix)
			}
		}
		p.b = append(p.b, n[i:i+1+l]...)
		i += 1 + l
	}
	p.b = append(p.b, 0)
}

func splitNames(data []byte, typ uint16) (pre []byte, names []Name, post []byte, ok bool) {
	rd := func(off int) (Name, int) {
		i := off
		for i < len(data) {
			l := int(data[i])
			if l == 0 {
				return Name(data[off : i+1]), i + 1
			}
			i += 1 + l
		}
		return nil, -1
	}
	switch typ {
	case TypeNS, TypeCNAME, TypePTR:
		n, o := rd(0)
		if o != len(data) {
			return nil, nil, nil, false
		}
		return nil, []Name{n}, nil, true
	case TypeMX:
		if len(data) < 3 {
			return nil, nil, nil, false
		}
		n, o := rd(2)
		if o != len(data) {
			return nil, nil, nil, false
		}
		return data[:2], []Name{n}, nil, true
	case TypeSRV:
		if len(data) < 7 {
			return nil, nil, nil, false
		}
		n, o := rd(6)
		if o != len(data) {
			return nil, nil, nil, false
		}
		return data[:6], []Name{n}, nil, true
	case TypeSOA:
		n1, o := rd(0)
		if o < 0 {
			return nil, nil, nil, false
		}
		n2, o2 := rd(o)
		if o2 < 0 || o2+20 != len(data) {
			return nil, nil, nil, false
		}
		return nil, []Name{n1, n2}, data[o2:], true
	}
	return nil, nil, nil, false
}

// Pack encodes m.  Canonical RDATA of name-bearing types may be compressed.
func Pack(m *Msg, o PackOpts) []byte {
	p := &packer{tbl: map[string]int{}}
	p.b = make([]byte, 12, 512)
	binary.BigEndian.PutUint16(p.b, m.ID)
	binary.BigEndian.PutUint16(p.b[2:], m.Bits)
	binary.BigEndian.PutUint16(p.b[4:], uint16(len(m.Q)))
	binary.BigEndian.PutUint16(p.b[6:], uint16(len(m.An)))
	binary.BigEndian.PutUint16(p.b[8:], uint16(len(m.Ns)))
	binary.BigEndian.PutUint16(p.b[10:], uint16(len(m.Ar)))
	for _, q := range m.Q {
		p.name(q.Name, o.CompressOwner)
		p.b = binary.BigEndian.AppendUint16(p.b, q.Type)
		p.b = binary.BigEndian.AppendUint16(p.b, q.Class)
	}
	for _, sec := range [][]RR{m.An, m.Ns, m.Ar} {
		for _, rr := range sec {
			p.name(rr.Name, o.CompressOwner)
			p.b = binary.BigEndian.AppendUint16(p.b, rr.Type)
			p.b = binary.BigEndian.AppendUint16(p.b, rr.Class)
			p.b = binary.BigEndian.AppendUint32(p.b, rr.TTL)
			lenAt := len(p.b)
			p.b = append(p.b, 0, 0)
			start := len(p.b)
			comp := o.CompressRdata && rr.Type != TypeSRV || o.CompressSRV && rr.Type == TypeSRV
			pre, names, post, ok := splitNames(rr.Data, rr.Type)
			if ok && comp {
				p.b = append(p.b, pre...)
				for _, n := range names {
					p.name(n, true)
				}
				p.b = append(p.b, post...)
			} else {
				p.b = append(p.b, rr.Data...)
			}
			binary.BigEndian.PutUint16(p.b[lenAt:], uint16(len(p.b)-start))
		}
	}
	return p.b
}

// UncompressedLen is the size of the message with no compression at all.
func UncompressedLen(m *Msg) int {
	l := 12
	for _, q := range m.Q {
		l += len(q.Name) + 4
	}
	for _, sec := range [][]RR{m.An, m.Ns, m.Ar} {
		for _, rr := range sec {
			l += len(rr.Name) + 10 + len(rr.Data)
		}
	}
	return l
}

func (r RR) Equal(o RR) bool {
	return r.Name.Equal(o.Name) && r.Type == o.Type && r.Class == o.Class && r.TTL == o.TTL && bytes.Equal(r.Data, o.Data)
}

// EqualNoTTL compares everything but the TTL.
func (r RR) EqualNoTTL(o RR) bool {
	return r.Name.Equal(o.Name) && r.Type == o.Type && r.Class == o.Class && bytes.Equal(r.Data, o.Data)
}

func (r RR) String() string {
	d := r.Data
	if len(d) > 24 {
		d = d[:24]
	}
	return fmt.Sprintf("{%s t%d c%d ttl%d %d:%x}", r.Name, r.Type, r.Class, r.TTL, len(r.Data), d)
}

// FindOPT returns the OPT records of the additional section.
func (m *Msg) OPTs() []RR {
	var o []RR
	for _, r := range m.Ar {
		if r.Type == TypeOPT {
			o = append(o, r)
		}
	}
	return o
}

// EDNSOption is one option of an OPT RDATA.
type EDNSOption struct {
	Code uint16
	Data []byte
}

func ParseOptions(d []byte) ([]EDNSOption, error) {
	var out []EDNSOption
	for len(d) > 0 {
		if len(d) < 4 {
			return nil, ErrRdata
		}
		c, l := binary.BigEndian.Uint16(d), int(binary.BigEndian.Uint16(d[2:]))
		if 4+l > len(d) {
			return nil, ErrRdata
		}
		out = append(out, EDNSOption{c, append([]byte(nil), d[4:4+l]...)})
		d = d[4+l:]
	}
	return out, nil
}

func PackOptions(opts []EDNSOption) []byte {
	var b []byte
	for _, o := range opts {
		b = binary.BigEndian.AppendUint16(b, o.Code)
		b = binary.BigEndian.AppendUint16(b, uint16(len(o.Data)))
		b = append(b, o.Data...)
	}
	return b
}
