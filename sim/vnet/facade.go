package vnet

import (
	"context"
	"io"
	"net"
	"net/netip"
	"strings"
	"syscall"
	"time"
)

// Dialer replaces net.Dialer in the rewritten files.  Control is accepted and
// never called (there is no file descriptor).
type Dialer struct {
	Timeout   time.Duration
	Deadline  time.Time
	LocalAddr net.Addr
	KeepAlive time.Duration
	Control   func(network, address string, c syscall.RawConn) error
}

func (d *Dialer) Dial(network, address string) (net.Conn, error) {
	return d.DialContext(context.Background(), network, address)
}

func (d *Dialer) DialContext(ctx context.Context, network, address string) (net.Conn, error) {
	if d.Timeout > 0 {
		var cancel context.CancelFunc
		ctx, cancel = context.WithTimeout(ctx, d.Timeout)
		defer cancel()
	}
	return W.dial(ctx, OwnerProxy, "", netip.Addr{}, network, address)
}

func (w *World) dial(ctx context.Context, owner Owner, label string, src netip.Addr, network, address string) (net.Conn, error) {
	switch {
	case strings.HasPrefix(network, "udp"):
		c, err := w.dialUDP(owner, label, src, address)
		if err != nil {
			return nil, err
		}
		return c, nil
	case strings.HasPrefix(network, "tcp"), network == "unix":
		c, err := w.dialStream(ctx, owner, label, src, network, address)
		if err != nil {
			return nil, err
		}
		return c, nil
	}
	return nil, &net.OpError{Op: "dial", Net: network, Err: net.UnknownNetworkError(network)}
}

func Dial(network, address string) (net.Conn, error) {
	return W.dial(context.Background(), OwnerProxy, "", netip.Addr{}, network, address)
}

// ListenConfig replaces net.ListenConfig.
type ListenConfig struct {
	Control   func(network, address string, c syscall.RawConn) error
	KeepAlive time.Duration
}

func (lc *ListenConfig) Listen(ctx context.Context, network, address string) (net.Listener, error) {
	return Listen(network, address)
}

func (lc *ListenConfig) ListenPacket(ctx context.Context, network, address string) (net.PacketConn, error) {
	// A Control function may set SO_REUSEPORT (the UDP listener does for
	// threads > 1); sockets created with one may share an address.
	return listenPacket(network, address, lc.Control != nil)
}

func Listen(network, address string) (net.Listener, error) {
	switch network {
	case "tcp", "tcp4", "tcp6", "unix":
		l, err := W.listenStream(OwnerProxy, network, address)
		if err != nil {
			return nil, err
		}
		return l, nil
	}
	return nil, &net.OpError{Op: "listen", Net: network, Err: net.UnknownNetworkError(network)}
}

func ListenPacket(network, address string) (net.PacketConn, error) {
	return listenPacket(network, address, false)
}

func listenPacket(network, address string, reuse bool) (net.PacketConn, error) {
	switch network {
	case "udp", "udp4", "udp6":
		c, err := W.listenUDP(OwnerProxy, address, W.ProxyAddr4, reuse)
		if err != nil {
			return nil, err
		}
		return c, nil
	}
	return nil, &net.OpError{Op: "listen", Net: network, Err: net.UnknownNetworkError(network)}
}

// ---- harness-side entry points (peers) ----

// PeerListen opens a listening stream socket owned by the harness.
func (w *World) PeerListen(network, address string) (*TCPListener, error) {
	return w.listenStream(OwnerPeer, network, address)
}

// PeerListenUDP binds a datagram socket owned by the harness.
func (w *World) PeerListenUDP(address string) (*UDPConn, error) {
	return w.listenUDP(OwnerPeer, address, netip.Addr{}, false)
}

// PeerDial connects from src; label is the structural link id.
func (w *World) PeerDial(ctx context.Context, label string, src netip.Addr, network, address string) (*StreamConn, error) {
	return w.dialStream(ctx, OwnerPeer, label, src, network, address)
}

// PeerDialUDP makes a connected datagram socket from src.
func (w *World) PeerDialUDP(label string, src netip.Addr, address string) (*UDPConn, error) {
	return w.dialUDP(OwnerPeer, label, src, address)
}

// DialProxy opens a stream connection owned by the proxy (for injected
// dialers built by the harness).
func (w *World) DialProxy(ctx context.Context, network, address string) (net.Conn, error) {
	return w.dial(ctx, OwnerProxy, "", netip.Addr{}, network, address)
}

// Buffers replaces net.Buffers.  On a simulated stream socket WriteTo is one
// atomic write of all the buffers (the kernel's writev under the descriptor's
// write lock); on any other writer - a *tls.Conn, say - it is one Write per
// buffer, as in package net.
type Buffers [][]byte

func (v *Buffers) WriteTo(w io.Writer) (n int64, err error) {
	if sc, ok := w.(*StreamConn); ok {
		var all []byte
		for _, b := range *v {
			all = append(all, b...)
		}
		nn, err := sc.Write(all)
		v.consume(int64(nn))
		return int64(nn), err
	}
	for i, b := range *v {
		if h := SyscallYield; h != nil && i > 0 {
			h()
		}
		nb, err := w.Write(b)
		n += int64(nb)
		if err != nil {
			v.consume(n)
			return n, err
		}
	}
	v.consume(n)
	return n, nil
}

func (v *Buffers) consume(n int64) {
	for len(*v) > 0 {
		ln0 := int64(len((*v)[0]))
		if ln0 > n {
			(*v)[0] = (*v)[0][n:]
			return
		}
		n -= ln0
		(*v)[0] = nil
		*v = (*v)[1:]
	}
}

func (v *Buffers) Read(p []byte) (n int, err error) {
	for len(p) > 0 && len(*v) > 0 {
		n0 := copy(p, (*v)[0])
		v.consume(int64(n0))
		p = p[n0:]
		n += n0
	}
	if len(*v) == 0 {
		err = errEOF
	}
	return
}

var errEOF = io.EOF
