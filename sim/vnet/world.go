// Package vnet is the simulated network and, at the same time, the import
// facade that replaces package "net" in the repository files that open
// sockets (installed by simgen through a build overlay).  Everything it does
// not reimplement is aliased to the real package.
package vnet

import (
	"context"
	"errors"
	"fmt"
	"net"
	"net/netip"
	"os"
	"sort"
	"strconv"
	"strings"
	"sync"
	"syscall"
	"time"

	"github.com/IrineSistiana/mosproxy/verifsim/sim"
)

// ---- aliases: the part of package net that the repository uses unchanged ----

type (
	Conn       = net.Conn
	Listener   = net.Listener
	PacketConn = net.PacketConn
	Addr       = net.Addr
	TCPAddr    = net.TCPAddr
	UDPAddr    = net.UDPAddr
	UnixAddr   = net.UnixAddr
	Error      = net.Error
	OpError    = net.OpError
	IP         = net.IP
	IPNet      = net.IPNet
	Interface  = net.Interface
)

var ErrClosed = net.ErrClosed

func JoinHostPort(h, p string) string                   { return net.JoinHostPort(h, p) }
func SplitHostPort(hp string) (string, string, error)   { return net.SplitHostPort(hp) }
func ParseIP(s string) net.IP                           { return net.ParseIP(s) }
func Interfaces() ([]net.Interface, error)              { return nil, errors.New("vnet: no interfaces") }
func IPv4(a, b, c, d byte) net.IP                       { return net.IPv4(a, b, c, d) }
func ParseCIDR(s string) (net.IP, *net.IPNet, error)    { return net.ParseCIDR(s) }
func TCPAddrFromAddrPort(a netip.AddrPort) *net.TCPAddr { return net.TCPAddrFromAddrPort(a) }
func UDPAddrFromAddrPort(a netip.AddrPort) *net.UDPAddr { return net.UDPAddrFromAddrPort(a) }

// ---- world ----

type Owner int

const (
	OwnerProxy Owner = iota // created through the facade, i.e. by the code under test
	OwnerPeer               // created by the harness (clients, fake servers)
)

func (o Owner) String() string {
	if o == OwnerProxy {
		return "proxy"
	}
	return "peer"
}

// StreamPolicy shapes one direction of a stream link.
type StreamPolicy struct {
	LatMin, LatMax time.Duration
	// SegMode: 0 = one segment per Write; 1 = random cuts; 2 = one byte per
	// segment for the first SegBytes bytes of every write then whole; 3 = cuts
	// biased to fall inside the 2-byte length prefix and right after it.
	SegMode  int
	SegBytes int
	BufCap   int // bytes in flight + unread before Write blocks (0 = 4 MiB)
}

// DgramPolicy shapes one direction of a datagram link.
type DgramPolicy struct {
	LatMin, LatMax time.Duration
	Drop, Dup      float64
	Corrupt        float64 // bit flip / truncation (plain links only)
	MTU            int     // 0 = 65507
}

// ConnectAction says what happens to a connection attempt.
type ConnectAction int

const (
	ConnectOK ConnectAction = iota
	ConnectRefuse
	ConnectBlackhole
)

// LinkInfo identifies a link structurally.
type LinkInfo struct {
	ID      string
	Network string
	Owner   Owner // who dialled / sent
	Src     netip.AddrPort
	Dst     netip.AddrPort
	DstName string // unix name when Network == "unix"
}

// World is the simulated network.
type World struct {
	S *sim.Sim

	mu        sync.Mutex
	listeners map[string]*TCPListener
	udp       map[string][]*UDPConn
	hosts     map[string][]netip.Addr
	ephemeral map[netip.Addr]uint16
	dialCount map[string]int
	eps       []endpoint
	nextID    int
	// udpClosed: when the proxy closed a datagram socket, by local port
	udpClosed map[uint16]time.Duration

	ProxyAddr4 netip.Addr
	ProxyAddr6 netip.Addr

	// Policies; nil means defaults (fault-free, 50–500µs latency).
	StreamPolicyFn func(li LinkInfo, dirAtoB bool) StreamPolicy
	DgramPolicyFn  func(li LinkInfo) DgramPolicy
	ConnectFn      func(li LinkInfo) (ConnectAction, time.Duration)
	// Partitioned reports whether traffic between the two hosts is cut now.
	Partitioned func(a, b netip.Addr) bool
	// OnDial is called for every connection attempt (C17 observes it).
	OnDial func(owner Owner, network, address string, resolved string)
	// OnUDPSend sees every datagram as it is sent (before loss).
	OnUDPSend func(owner Owner, src, dst netip.AddrPort, b []byte)
	// ICMP makes a datagram to an unbound port bounce ECONNREFUSED to a
	// connected sender.
	ICMP bool
}

type endpoint interface {
	epOwner() Owner
	epOpen() bool
	epDesc() string
}

// W is the world the facade functions operate on.
var W *World

func NewWorld(s *sim.Sim) *World {
	w := &World{
		S:          s,
		listeners:  map[string]*TCPListener{},
		udp:        map[string][]*UDPConn{},
		hosts:      map[string][]netip.Addr{},
		ephemeral:  map[netip.Addr]uint16{},
		dialCount:  map[string]int{},
		ProxyAddr4: netip.MustParseAddr("10.99.0.1"),
		ProxyAddr6: netip.MustParseAddr("fd00:99::1"),
	}
	w.hosts["localhost"] = []netip.Addr{netip.MustParseAddr("127.0.0.1"), netip.MustParseAddr("::1")}
	W = w
	return w
}

func (w *World) AddHost(name string, addrs ...netip.Addr) {
	w.mu.Lock()
	w.hosts[strings.ToLower(strings.TrimSuffix(name, "."))] = addrs
	w.mu.Unlock()
}

func (w *World) register(e endpoint) {
	w.eps = append(w.eps, e)
}

// OpenEndpoints lists endpoints of the given owner that are still open.
func (w *World) OpenEndpoints(o Owner) []string {
	w.mu.Lock()
	eps := append([]endpoint(nil), w.eps...)
	w.mu.Unlock()
	var out []string
	for _, e := range eps {
		if e.epOwner() == o && e.epOpen() {
			out = append(out, e.epDesc())
		}
	}
	sort.Strings(out)
	return out
}

func (w *World) streamPolicy(li LinkInfo, aToB bool) StreamPolicy {
	var p StreamPolicy
	if w.StreamPolicyFn != nil {
		p = w.StreamPolicyFn(li, aToB)
	}
	if p.LatMax == 0 && p.LatMin == 0 {
		p.LatMin, p.LatMax = 50*time.Microsecond, 500*time.Microsecond
	}
	if p.BufCap == 0 {
		p.BufCap = 4 << 20
	}
	return p
}

func (w *World) dgramPolicy(li LinkInfo) DgramPolicy {
	var p DgramPolicy
	if w.DgramPolicyFn != nil {
		p = w.DgramPolicyFn(li)
	}
	if p.LatMax == 0 && p.LatMin == 0 {
		p.LatMin, p.LatMax = 50*time.Microsecond, 500*time.Microsecond
	}
	if p.MTU == 0 {
		p.MTU = 65507
	}
	return p
}

// ---- address helpers ----

func (w *World) resolveHost(host string) ([]netip.Addr, error) {
	if a, err := netip.ParseAddr(host); err == nil {
		return []netip.Addr{a}, nil
	}
	w.mu.Lock()
	as, ok := w.hosts[strings.ToLower(strings.TrimSuffix(host, "."))]
	w.mu.Unlock()
	if !ok || len(as) == 0 {
		return nil, &net.DNSError{Err: "no such host", Name: host, IsNotFound: true}
	}
	return as, nil
}

func (w *World) resolveAddrPort(network, address string) ([]netip.AddrPort, error) {
	host, port, err := net.SplitHostPort(address)
	if err != nil {
		return nil, &net.AddrError{Err: err.Error(), Addr: address}
	}
	p, err := strconv.ParseUint(port, 10, 16)
	if err != nil {
		return nil, &net.AddrError{Err: "invalid port", Addr: address}
	}
	if host == "" {
		host = "127.0.0.1"
	}
	as, err := w.resolveHost(host)
	if err != nil {
		return nil, err
	}
	var out []netip.AddrPort
	for _, a := range as {
		if strings.HasSuffix(network, "4") && !a.Is4() {
			continue
		}
		if strings.HasSuffix(network, "6") && a.Is4() {
			continue
		}
		out = append(out, netip.AddrPortFrom(a.WithZone(""), uint16(p)))
	}
	if len(out) == 0 {
		return nil, &net.AddrError{Err: "no suitable address found", Addr: address}
	}
	return out, nil
}

// ResolveUDPAddr is the facade for net.ResolveUDPAddr.
func ResolveUDPAddr(network, address string) (*net.UDPAddr, error) {
	aps, err := W.resolveAddrPort(network, address)
	// QUIC upstreams resolve their target and then write datagrams to it from
	// an unconnected socket: the resolution is what shows where they "dial".
	if W.OnDial != nil {
		r := ""
		if err == nil {
			r = aps[0].String()
		}
		W.OnDial(OwnerProxy, "udp", address, r)
	}
	if err != nil {
		return nil, err
	}
	return net.UDPAddrFromAddrPort(aps[0]), nil
}

func ResolveTCPAddr(network, address string) (*net.TCPAddr, error) {
	aps, err := W.resolveAddrPort(network, address)
	if err != nil {
		return nil, err
	}
	return net.TCPAddrFromAddrPort(aps[0]), nil
}

func (w *World) allocPortLocked(a netip.Addr) uint16 {
	p := w.ephemeral[a]
	if p < 32768 {
		p = 32768
	}
	p++
	w.ephemeral[a] = p
	return p
}

// parseListenAddr turns "host:port" into a bind address. An empty host or a
// wildcard is kept as the unspecified address of its family ("" = "::",
// dual stack, as Go does on Linux).
func parseListenAddr(address string) (netip.AddrPort, error) {
	host, port, err := net.SplitHostPort(address)
	if err != nil {
		return netip.AddrPort{}, &net.AddrError{Err: err.Error(), Addr: address}
	}
	var p uint64
	if port != "" {
		p, err = strconv.ParseUint(port, 10, 16)
		if err != nil {
			return netip.AddrPort{}, &net.AddrError{Err: "invalid port", Addr: address}
		}
	}
	var a netip.Addr
	if host == "" {
		a = netip.IPv6Unspecified()
	} else {
		as, err := W.resolveHost(host)
		if err != nil {
			return netip.AddrPort{}, err
		}
		a = as[0]
	}
	return netip.AddrPortFrom(a, uint16(p)), nil
}

// lookupKeys returns the bind-table keys a destination may match, in order:
// exact, same-family wildcard, dual-stack wildcard.
func lookupKeys(dst netip.AddrPort) []string {
	port := dst.Port()
	keys := []string{netip.AddrPortFrom(dst.Addr(), port).String()}
	if dst.Addr().Is4() {
		keys = append(keys, netip.AddrPortFrom(netip.IPv4Unspecified(), port).String())
	}
	keys = append(keys, netip.AddrPortFrom(netip.IPv6Unspecified(), port).String())
	return keys
}

// asSeenBy maps a source address to how a socket bound to `bound` sees it:
// an IPv4 peer of an IPv6 (dual-stack) socket appears v4-mapped.
func asSeenBy(src netip.AddrPort, bound netip.Addr) netip.AddrPort {
	if bound.Is6() && !bound.Is4In6() && src.Addr().Is4() {
		return netip.AddrPortFrom(netip.AddrFrom16(src.Addr().As16()), src.Port())
	}
	return src
}

// ---- errors ----

type timeoutError struct{}

func (timeoutError) Error() string   { return "i/o timeout" }
func (timeoutError) Timeout() bool   { return true }
func (timeoutError) Temporary() bool { return true }
func (timeoutError) Is(err error) bool {
	return err == os.ErrDeadlineExceeded || err == context.DeadlineExceeded
}

func opErr(op, network string, err error) error {
	return &net.OpError{Op: op, Net: network, Err: err}
}

func sysErr(call string, e syscall.Errno) error { return os.NewSyscallError(call, e) }

var errTimeout error = timeoutError{}

func (w *World) newID() int {
	w.nextID++
	return w.nextID
}

func (w *World) logf(kind, f string, a ...any) { w.S.Logf(kind, f, a...) }

func descAddr(a netip.AddrPort) string { return a.String() }

var _ = fmt.Sprintf
