package vnet

import (
	"context"
	"io"
	"net"
	"net/netip"
	"strings"
	"sync"
	"syscall"
	"time"
)

// StreamConn is one end of a simulated TCP (or abstract-unix) connection.
type StreamConn struct {
	w       *World
	id      int
	owner   Owner
	network string
	local   net.Addr
	remote  net.Addr
	Link    LinkInfo
	aSide   bool // true for the dialling side
	peer    *StreamConn

	mu       sync.Mutex // instants only
	note     chan struct{}
	rbuf     []byte
	rEOF     bool // peer's FIN delivered
	rRST     bool // reset received or sent
	closed   bool // local Close
	closedAt time.Duration
	wclosed  bool // local CloseWrite
	rdl, wdl time.Time

	// sender-side state
	lastDeliver time.Duration
	inflight    int // bytes sent and not yet read by the peer
	wctr        uint64
	pol         StreamPolicy

	// accounting for oracles
	BytesIn, BytesOut int64
	OnDeliver         func(c *StreamConn, n int) // called on the scheduler when bytes reach this end
}

func (c *StreamConn) epOwner() Owner { return c.owner }
func (c *StreamConn) epOpen() bool   { c.mu.Lock(); defer c.mu.Unlock(); return !c.closed }
func (c *StreamConn) epDesc() string {
	return "stream#" + itoa(c.id) + " " + c.Link.ID + " " + c.local.String() + "->" + c.remote.String()
}

func itoa(i int) string {
	if i == 0 {
		return "0"
	}
	var b [20]byte
	n := len(b)
	neg := i < 0
	if neg {
		i = -i
	}
	for i > 0 {
		n--
		b[n] = byte('0' + i%10)
		i /= 10
	}
	if neg {
		n--
		b[n] = '-'
	}
	return string(b[n:])
}

func (c *StreamConn) signalLocked() {
	close(c.note)
	c.note = make(chan struct{})
}

// ID is the world-unique number of this endpoint.
func (c *StreamConn) ID() int { return c.id }

func (c *StreamConn) LocalAddr() net.Addr  { return c.local }
func (c *StreamConn) RemoteAddr() net.Addr { return c.remote }

func (c *StreamConn) SetDeadline(t time.Time) error {
	c.mu.Lock()
	defer c.mu.Unlock()
	if c.closed {
		return opErr("set", c.network, net.ErrClosed)
	}
	c.rdl, c.wdl = t, t
	c.signalLocked()
	return nil
}

func (c *StreamConn) SetReadDeadline(t time.Time) error {
	c.mu.Lock()
	defer c.mu.Unlock()
	if c.closed {
		return opErr("set", c.network, net.ErrClosed)
	}
	c.rdl = t
	c.signalLocked()
	return nil
}

func (c *StreamConn) SetWriteDeadline(t time.Time) error {
	c.mu.Lock()
	defer c.mu.Unlock()
	if c.closed {
		return opErr("set", c.network, net.ErrClosed)
	}
	c.wdl = t
	c.signalLocked()
	return nil
}

func (c *StreamConn) Read(p []byte) (int, error) {
	for {
		c.mu.Lock()
		if c.closed {
			c.mu.Unlock()
			return 0, opErr("read", c.network, net.ErrClosed)
		}
		if len(c.rbuf) > 0 {
			if len(p) == 0 {
				c.mu.Unlock()
				return 0, nil
			}
			n := copy(p, c.rbuf)
			c.rbuf = c.rbuf[n:]
			if len(c.rbuf) == 0 {
				c.rbuf = nil
			}
			c.BytesIn += int64(n)
			c.mu.Unlock()
			c.peer.credit(n)
			return n, nil
		}
		if c.rRST {
			c.mu.Unlock()
			return 0, opErr("read", c.network, sysErr("read", syscall.ECONNRESET))
		}
		if c.rEOF {
			c.mu.Unlock()
			return 0, io.EOF
		}
		var tc <-chan time.Time
		var tm *time.Timer
		if !c.rdl.IsZero() {
			d := time.Until(c.rdl)
			if d <= 0 {
				c.mu.Unlock()
				return 0, opErr("read", c.network, errTimeout)
			}
			tm = time.NewTimer(d)
			tc = tm.C
		}
		ch := c.note
		c.mu.Unlock()
		select {
		case <-ch:
		case <-tc:
		}
		if tm != nil {
			tm.Stop()
		}
	}
}

// credit is called when the peer consumed n of our bytes.
func (c *StreamConn) credit(n int) {
	c.mu.Lock()
	c.inflight -= n
	c.signalLocked()
	c.mu.Unlock()
}

// SyscallYield, when set, is called between the writes that a Buffers value
// is turned into when its writer has no writev of its own: entering a system
// call is where a goroutine loses its processor.  (Not inside Write itself:
// crypto/tls and net/http call it with a real mutex held, and a goroutine
// that sleeps there stops the bubble's clock.)
var SyscallYield func()

func (c *StreamConn) Write(p []byte) (int, error) {
	if len(p) == 0 {
		return 0, nil
	}

	// flow control: block while the peer's window is full.
	for {
		c.mu.Lock()
		if c.closed {
			c.mu.Unlock()
			return 0, opErr("write", c.network, net.ErrClosed)
		}
		if c.wclosed {
			c.mu.Unlock()
			return 0, opErr("write", c.network, sysErr("write", syscall.EPIPE))
		}
		if c.rRST {
			c.mu.Unlock()
			return 0, opErr("write", c.network, sysErr("write", syscall.ECONNRESET))
		}
		if c.inflight < c.pol.BufCap {
			break
		}
		var tc <-chan time.Time
		var tm *time.Timer
		if !c.wdl.IsZero() {
			d := time.Until(c.wdl)
			if d <= 0 {
				c.mu.Unlock()
				return 0, opErr("write", c.network, errTimeout)
			}
			tm = time.NewTimer(d)
			tc = tm.C
		}
		ch := c.note
		c.mu.Unlock()
		select {
		case <-ch:
		case <-tc:
		}
		if tm != nil {
			tm.Stop()
		}
	}
	// c.mu held.
	if !c.wdl.IsZero() && time.Until(c.wdl) <= 0 {
		c.mu.Unlock()
		return 0, opErr("write", c.network, errTimeout)
	}
	data := append([]byte(nil), p...)
	c.inflight += len(data)
	c.BytesOut += int64(len(data))
	segs := c.cutLocked(len(data))
	s := c.w.S
	now := s.Now()
	off := 0
	type seg struct {
		b  []byte
		at time.Duration
	}
	var plan []seg
	for _, n := range segs {
		c.wctr++
		lat := s.Dur(c.Link.ID+dirKey(c.aSide), c.wctr, c.pol.LatMin, c.pol.LatMax)
		at := now + lat
		if at <= c.lastDeliver {
			at = c.lastDeliver + time.Duration(1+s.H(c.Link.ID, c.wctr)%2000)
		}
		c.lastDeliver = at
		plan = append(plan, seg{data[off : off+n], at})
		off += n
	}
	peer := c.peer
	c.mu.Unlock()
	c.w.logf("swrite", "%s %s n=%d segs=%d", c.Link.ID, dirKey(c.aSide), len(data), len(segs))
	for _, sg := range plan {
		b := sg.b
		s.After(sg.at-now, "sdeliver", func() { peer.deliver(b) })
	}
	return len(p), nil
}

func dirKey(a bool) string {
	if a {
		return ">"
	}
	return "<"
}

// cutLocked decides the segment sizes for a write of n bytes.
func (c *StreamConn) cutLocked(n int) []int {
	s := c.w.S
	key := c.Link.ID + dirKey(c.aSide) + "cut"
	switch c.pol.SegMode {
	case 1:
		var out []int
		rem := n
		for rem > 0 {
			c.wctr++
			k := 1 + s.IntN(key, c.wctr, rem)
			if s.Coin(key, c.wctr+1<<40, 0.3) {
				k = 1 + s.IntN(key, c.wctr+2<<40, min(rem, 3))
			}
			out = append(out, k)
			rem -= k
			if len(out) > 64 && rem > 0 {
				out = append(out, rem)
				rem = 0
			}
		}
		return out
	case 2:
		lim := c.pol.SegBytes
		if lim <= 0 {
			lim = 8
		}
		var out []int
		rem := n
		for rem > 0 && len(out) < lim {
			out = append(out, 1)
			rem--
		}
		if rem > 0 {
			out = append(out, rem)
		}
		return out
	case 3:
		if n <= 2 {
			return ones(n)
		}
		c.wctr++
		switch s.IntN(key, c.wctr, 3) {
		case 0:
			return []int{1, n - 1}
		case 1:
			return []int{2, n - 2}
		default:
			if n > 3 {
				return []int{1, 1, 1, n - 3}
			}
			return ones(n)
		}
	}
	return []int{n}
}

func ones(n int) []int {
	o := make([]int, n)
	for i := range o {
		o[i] = 1
	}
	return o
}

// deliver runs on the scheduler goroutine.
func (c *StreamConn) deliver(b []byte) {
	c.mu.Lock()
	if c.closed || c.rRST {
		c.mu.Unlock()
		// Data for a closed socket provokes a reset towards the sender, as
		// a kernel would send RST for data on a closed connection.
		c.peer.recvRST()
		return
	}
	c.rbuf = append(c.rbuf, b...)
	c.signalLocked()
	cb := c.OnDeliver
	c.mu.Unlock()
	c.w.logf("sdeliver", "%s %s n=%d", c.Link.ID, dirKey(!c.aSide), len(b))
	if cb != nil {
		cb(c, len(b))
	}
}

func (c *StreamConn) recvFIN() {
	c.mu.Lock()
	c.rEOF = true
	c.signalLocked()
	c.mu.Unlock()
	c.w.logf("sfin", "%s %s", c.Link.ID, dirKey(!c.aSide))
}

func (c *StreamConn) recvRST() {
	c.mu.Lock()
	if !c.rRST {
		c.rRST = true
		c.signalLocked()
	}
	c.mu.Unlock()
	c.w.logf("srst", "%s %s", c.Link.ID, dirKey(!c.aSide))
}

// Buffered returns the number of delivered-but-unread bytes.
func (c *StreamConn) Buffered() int { c.mu.Lock(); defer c.mu.Unlock(); return len(c.rbuf) }

func (c *StreamConn) IsClosed() bool { c.mu.Lock(); defer c.mu.Unlock(); return c.closed }

// PeerGone reports whether the other end closed or reset (as delivered).
func (c *StreamConn) PeerGone() bool { c.mu.Lock(); defer c.mu.Unlock(); return c.rEOF || c.rRST }

func (c *StreamConn) finDelay() time.Duration {
	s := c.w.S
	c.wctr++
	lat := s.Dur(c.Link.ID+dirKey(c.aSide), c.wctr, c.pol.LatMin, c.pol.LatMax)
	at := s.Now() + lat
	if at <= c.lastDeliver {
		at = c.lastDeliver + 1000
	}
	c.lastDeliver = at
	return at - s.Now()
}

// PeerClosedAt is when the other end closed its socket (known to the
// simulated network at once, to this end only when the FIN or RST arrives).
func (c *StreamConn) PeerClosedAt() (time.Duration, bool) {
	p := c.peer
	if p == nil {
		return 0, false
	}
	p.mu.Lock()
	defer p.mu.Unlock()
	return p.closedAt, p.closed
}

// LocallyClosed reports whether Close was called on this end.
func (c *StreamConn) LocallyClosed() bool {
	c.mu.Lock()
	defer c.mu.Unlock()
	return c.closed
}

// Close closes the socket. Unread inbound data turns the FIN into a reset,
// as on Linux.
func (c *StreamConn) Close() error {
	c.mu.Lock()
	if c.closed {
		c.mu.Unlock()
		return opErr("close", c.network, net.ErrClosed)
	}
	c.closed = true
	c.closedAt = c.w.S.Now()
	unread := len(c.rbuf) > 0
	c.rbuf = nil
	wasW := c.wclosed
	d := c.finDelay()
	c.signalLocked()
	peer := c.peer
	c.mu.Unlock()
	c.w.logf("sclose", "%s %s unread=%v", c.Link.ID, dirKey(c.aSide), unread)
	if unread {
		c.w.S.After(d, "srst", peer.recvRST)
	} else if !wasW {
		c.w.S.After(d, "sfin", peer.recvFIN)
	}
	return nil
}

// CloseWrite sends FIN and keeps the read side open.
func (c *StreamConn) CloseWrite() error {
	c.mu.Lock()
	if c.closed {
		c.mu.Unlock()
		return opErr("close", c.network, net.ErrClosed)
	}
	if c.wclosed {
		c.mu.Unlock()
		return nil
	}
	c.wclosed = true
	d := c.finDelay()
	peer := c.peer
	c.mu.Unlock()
	c.w.S.After(d, "sfin", peer.recvFIN)
	return nil
}

// Reset aborts the connection: the peer sees ECONNRESET after one latency and
// data in flight towards it that arrives later is discarded.
func (c *StreamConn) Reset() {
	c.mu.Lock()
	if c.closed {
		c.mu.Unlock()
		return
	}
	c.closed = true
	c.rbuf = nil
	s := c.w.S
	c.wctr++
	lat := s.Dur(c.Link.ID+dirKey(c.aSide), c.wctr, c.pol.LatMin, c.pol.LatMax)
	c.signalLocked()
	peer := c.peer
	c.mu.Unlock()
	c.w.logf("sreset", "%s %s", c.Link.ID, dirKey(c.aSide))
	s.After(lat, "srst", peer.recvRST)
}

// ---- listener ----

type TCPListener struct {
	w       *World
	id      int
	owner   Owner
	network string
	key     string
	bound   netip.AddrPort
	unix    string

	mu     sync.Mutex
	note   chan struct{}
	q      []*StreamConn
	closed bool
	dl     time.Time
}

func (l *TCPListener) epOwner() Owner { return l.owner }
func (l *TCPListener) epOpen() bool   { l.mu.Lock(); defer l.mu.Unlock(); return !l.closed }
func (l *TCPListener) epDesc() string { return "listener#" + itoa(l.id) + " " + l.key }

func (l *TCPListener) Addr() net.Addr {
	if l.network == "unix" {
		return &net.UnixAddr{Name: l.unix, Net: "unix"}
	}
	return net.TCPAddrFromAddrPort(l.bound)
}

func (l *TCPListener) Accept() (net.Conn, error) {
	for {
		l.mu.Lock()
		if l.closed {
			l.mu.Unlock()
			return nil, opErr("accept", l.network, net.ErrClosed)
		}
		if len(l.q) > 0 {
			c := l.q[0]
			l.q = l.q[1:]
			l.mu.Unlock()
			return c, nil
		}
		ch := l.note
		l.mu.Unlock()
		<-ch
	}
}

func (l *TCPListener) Close() error {
	l.mu.Lock()
	if l.closed {
		l.mu.Unlock()
		return opErr("close", l.network, net.ErrClosed)
	}
	l.closed = true
	q := l.q
	l.q = nil
	close(l.note)
	l.note = make(chan struct{})
	l.mu.Unlock()
	l.w.mu.Lock()
	if l.w.listeners[l.key] == l {
		delete(l.w.listeners, l.key)
	}
	l.w.mu.Unlock()
	l.w.logf("lclose", "%s", l.key)
	for _, c := range q { // connections never accepted are reset
		c.Reset()
	}
	return nil
}

func (w *World) listenStream(owner Owner, network, address string) (*TCPListener, error) {
	l := &TCPListener{w: w, owner: owner, network: "tcp", note: make(chan struct{})}
	if network == "unix" || strings.HasPrefix(address, "@") {
		l.network = "unix"
		l.unix = address
		l.key = "unix|" + address
		w.mu.Lock()
	} else {
		ap, err := parseListenAddr(address)
		if err != nil {
			return nil, opErr("listen", "tcp", err)
		}
		w.mu.Lock()
		if ap.Port() == 0 {
			ap = netip.AddrPortFrom(ap.Addr(), w.allocPortLocked(ap.Addr()))
		}
		l.bound = ap
		l.key = "tcp|" + ap.String()
	}
	if _, dup := w.listeners[l.key]; dup {
		w.mu.Unlock()
		return nil, opErr("listen", l.network, sysErr("bind", syscall.EADDRINUSE))
	}
	l.id = w.newID()
	w.listeners[l.key] = l
	w.register(l)
	w.mu.Unlock()
	w.logf("listen", "%s owner=%s", l.key, owner)
	return l, nil
}

func (w *World) findListener(network string, dst netip.AddrPort, unixName string) *TCPListener {
	w.mu.Lock()
	defer w.mu.Unlock()
	if network == "unix" {
		return w.listeners["unix|"+unixName]
	}
	for _, k := range lookupKeys(dst) {
		if l := w.listeners["tcp|"+k]; l != nil {
			return l
		}
	}
	return nil
}

// dialStream connects owner's new socket to address.  label, when not empty,
// is the structural link id (peers supply one); the proxy's links are named
// after the destination and the ordinal of the attempt.
func (w *World) dialStream(ctx context.Context, owner Owner, label string, src netip.Addr, network, address string) (*StreamConn, error) {
	var dst netip.AddrPort
	var unixName string
	isUnix := network == "unix"
	if isUnix {
		unixName = address
	} else {
		aps, err := w.resolveAddrPort(network, address)
		if err != nil {
			if w.OnDial != nil {
				w.OnDial(owner, network, address, "")
			}
			return nil, opErr("dial", network, err)
		}
		dst = aps[0]
	}
	w.mu.Lock()
	dk := network + "|" + address
	if !isUnix {
		dk = network + "|" + dst.String()
	}
	w.dialCount[dk]++
	n := w.dialCount[dk]
	if !src.IsValid() {
		if isUnix || dst.Addr().Is4() {
			src = w.ProxyAddr4
		} else {
			src = w.ProxyAddr6
		}
	}
	sport := w.allocPortLocked(src)
	w.mu.Unlock()
	li := LinkInfo{Network: network, Owner: owner, Src: netip.AddrPortFrom(src, sport), Dst: dst, DstName: unixName}
	if label != "" {
		li.ID = label
	} else {
		li.ID = "P>" + dk + "#" + itoa(n)
	}
	resolved := address
	if !isUnix {
		resolved = dst.String()
	}
	if w.OnDial != nil {
		w.OnDial(owner, network, address, resolved)
	}
	w.logf("dial", "%s owner=%s", li.ID, owner)

	act, delay := ConnectOK, time.Duration(0)
	if w.ConnectFn != nil {
		act, delay = w.ConnectFn(li)
	}
	if !isUnix && w.Partitioned != nil && w.Partitioned(src, dst.Addr()) {
		act = ConnectBlackhole
	}
	pol := w.streamPolicy(li, true)
	rtt := w.S.Dur(li.ID+"syn", 0, pol.LatMin, pol.LatMax) * 2
	wait := func(d time.Duration) error {
		t := time.NewTimer(d)
		defer t.Stop()
		select {
		case <-t.C:
			return nil
		case <-ctx.Done():
			return ctx.Err()
		}
	}
	mapCtxErr := func(err error) error {
		if err == context.DeadlineExceeded {
			return opErr("dial", network, errTimeout)
		}
		return opErr("dial", network, err)
	}
	if act == ConnectBlackhole {
		w.S.Fault("connect_blackhole")
		// SYN retransmission gives up after about two minutes.
		if err := wait(127 * time.Second); err != nil {
			return nil, mapCtxErr(err)
		}
		return nil, opErr("dial", network, sysErr("connect", syscall.ETIMEDOUT))
	}
	if err := wait(rtt + delay); err != nil {
		return nil, mapCtxErr(err)
	}
	l := w.findListener(network, dst, unixName)
	if act == ConnectRefuse || l == nil {
		if act == ConnectRefuse {
			w.S.Fault("connect_refused")
		}
		return nil, opErr("dial", network, sysErr("connect", syscall.ECONNREFUSED))
	}
	a := &StreamConn{w: w, owner: owner, network: network, Link: li, aSide: true, note: make(chan struct{})}
	b := &StreamConn{w: w, owner: l.owner, network: network, Link: li, aSide: false, note: make(chan struct{})}
	a.peer, b.peer = b, a
	a.pol = pol
	b.pol = w.streamPolicy(li, false)
	if isUnix {
		a.local = &net.UnixAddr{Net: "unix"}
		a.remote = &net.UnixAddr{Name: unixName, Net: "unix"}
		b.local = &net.UnixAddr{Name: unixName, Net: "unix"}
		b.remote = &net.UnixAddr{Net: "unix"}
	} else {
		a.local = net.TCPAddrFromAddrPort(li.Src)
		a.remote = net.TCPAddrFromAddrPort(dst)
		seen := asSeenBy(li.Src, l.bound.Addr())
		b.remote = net.TCPAddrFromAddrPort(seen)
		ld := dst
		if seen != li.Src {
			ld = netip.AddrPortFrom(netip.AddrFrom16(dst.Addr().As16()), dst.Port())
		}
		b.local = net.TCPAddrFromAddrPort(ld)
	}
	w.mu.Lock()
	a.id = w.newID()
	b.id = w.newID()
	w.register(a)
	w.register(b)
	w.mu.Unlock()
	l.mu.Lock()
	if l.closed {
		l.mu.Unlock()
		a.mu.Lock()
		a.closed = true
		a.mu.Unlock()
		b.mu.Lock()
		b.closed = true
		b.mu.Unlock()
		return nil, opErr("dial", network, sysErr("connect", syscall.ECONNREFUSED))
	}
	l.q = append(l.q, b)
	close(l.note)
	l.note = make(chan struct{})
	l.mu.Unlock()
	w.logf("connected", "%s a=%d b=%d", li.ID, a.id, b.id)
	return a, nil
}

// Non-blocking read states.
const (
	RdData = iota
	RdWouldBlock
	RdEOF
	RdReset
	RdClosed
)

// TryRead reads what is there without blocking.
func (c *StreamConn) TryRead(p []byte) (int, int) {
	c.mu.Lock()
	if c.closed {
		c.mu.Unlock()
		return 0, RdClosed
	}
	if len(c.rbuf) > 0 {
		n := copy(p, c.rbuf)
		c.rbuf = c.rbuf[n:]
		if len(c.rbuf) == 0 {
			c.rbuf = nil
		}
		c.BytesIn += int64(n)
		c.mu.Unlock()
		c.peer.credit(n)
		return n, RdData
	}
	st := RdWouldBlock
	if c.rRST {
		st = RdReset
	} else if c.rEOF {
		st = RdEOF
	}
	c.mu.Unlock()
	return 0, st
}

// WaitReadable blocks until TryRead would not return RdWouldBlock.
func (c *StreamConn) WaitReadable() {
	for {
		c.mu.Lock()
		if c.closed || len(c.rbuf) > 0 || c.rRST || c.rEOF {
			c.mu.Unlock()
			return
		}
		ch := c.note
		c.mu.Unlock()
		<-ch
	}
}
