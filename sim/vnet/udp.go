package vnet

import (
	"net"
	"net/netip"
	"sync"

	"github.com/IrineSistiana/mosproxy/verifsim/sim"
	"syscall"
	"time"
)

type dgram struct {
	b    []byte
	from netip.AddrPort
	to   netip.Addr // the address it was sent to (for IP_PKTINFO)
}

// UDPConn is a simulated UDP socket (bound, optionally connected).  It
// replaces *net.UDPConn in the rewritten repository files.
type UDPConn struct {
	w      *World
	id     int
	owner  Owner
	key    string
	local  netip.AddrPort
	remote netip.AddrPort // valid when connected
	Label  string         // structural id prefix for links originating here

	mu      sync.Mutex
	note    chan struct{}
	q       []dgram
	closed  bool
	rdl     time.Time
	icmpErr bool
	reuse   bool
	sendCtr map[string]uint64
	pktinfo bool // IP_PKTINFO / IPV6_RECVPKTINFO is set

	// OnRecv is called on the scheduler when a datagram is queued.
	OnRecv func(c *UDPConn, b []byte, from netip.AddrPort)
}

func (c *UDPConn) epOwner() Owner { return c.owner }
func (c *UDPConn) epOpen() bool   { c.mu.Lock(); defer c.mu.Unlock(); return !c.closed }
func (c *UDPConn) epDesc() string { return "udp#" + itoa(c.id) + " " + c.key }

func (c *UDPConn) LocalAddr() net.Addr { return net.UDPAddrFromAddrPort(c.local) }
func (c *UDPConn) RemoteAddr() net.Addr {
	if !c.remote.IsValid() {
		return nil
	}
	return net.UDPAddrFromAddrPort(c.remote)
}
func (c *UDPConn) LocalAddrPort() netip.AddrPort { return c.local }

func (c *UDPConn) signalLocked() {
	close(c.note)
	c.note = make(chan struct{})
}

func (c *UDPConn) SetDeadline(t time.Time) error { return c.SetReadDeadline(t) }
func (c *UDPConn) SetReadDeadline(t time.Time) error {
	c.mu.Lock()
	defer c.mu.Unlock()
	if c.closed {
		return opErr("set", "udp", net.ErrClosed)
	}
	c.rdl = t
	c.signalLocked()
	return nil
}
func (c *UDPConn) SetWriteDeadline(t time.Time) error {
	c.mu.Lock()
	defer c.mu.Unlock()
	if c.closed {
		return opErr("set", "udp", net.ErrClosed)
	}
	return nil
}

func (c *UDPConn) recv(p []byte) (int, netip.AddrPort, error) {
	n, from, _, err := c.recv2(p)
	return n, from, err
}

// EnablePktInfo makes the socket deliver the destination address of every
// datagram as ancillary data (see MakePktInfo).
func (c *UDPConn) EnablePktInfo() { c.mu.Lock(); c.pktinfo = true; c.mu.Unlock() }

// MakePktInfo and ParsePktInfo build / parse the ancillary data; they are set
// by the udpcmsg facade to the repository's own (Linux) encoders, so that the
// bytes are what a kernel would hand over.
var (
	MakePktInfo  func(a netip.Addr) []byte
	ParsePktInfo func(oob []byte) (netip.Addr, error)
)

func (c *UDPConn) recv2(p []byte) (int, netip.AddrPort, netip.Addr, error) {
	for {
		c.mu.Lock()
		if c.closed {
			c.mu.Unlock()
			return 0, netip.AddrPort{}, netip.Addr{}, opErr("read", "udp", net.ErrClosed)
		}
		if c.icmpErr {
			c.icmpErr = false
			c.mu.Unlock()
			return 0, netip.AddrPort{}, netip.Addr{}, opErr("read", "udp", sysErr("recvfrom", syscall.ECONNREFUSED))
		}
		if len(c.q) > 0 {
			d := c.q[0]
			c.q = c.q[1:]
			c.mu.Unlock()
			n := copy(p, d.b) // excess is discarded, as recvfrom does
			return n, d.from, d.to, nil
		}
		var tc <-chan time.Time
		var tm *time.Timer
		if !c.rdl.IsZero() {
			d := time.Until(c.rdl)
			if d <= 0 {
				c.mu.Unlock()
				return 0, netip.AddrPort{}, netip.Addr{}, opErr("read", "udp", errTimeout)
			}
			tm = time.NewTimer(d)
			tc = tm.C
		}
		ch := c.note
		c.mu.Unlock()
		select {
		case <-ch:
		case <-tc:
		}
		if tm != nil {
			tm.Stop()
		}
	}
}

// TryRecv returns a queued datagram without blocking (used by the batch reader).
func (c *UDPConn) TryRecv(p []byte) (int, netip.AddrPort, bool) {
	n, from, _, ok := c.TryRecv2(p)
	return n, from, ok
}

// TryRecv2 also returns the datagram's destination address.
func (c *UDPConn) TryRecv2(p []byte) (int, netip.AddrPort, netip.Addr, bool) {
	c.mu.Lock()
	defer c.mu.Unlock()
	if c.closed || len(c.q) == 0 {
		return 0, netip.AddrPort{}, netip.Addr{}, false
	}
	d := c.q[0]
	c.q = c.q[1:]
	return copy(p, d.b), d.from, d.to, true
}

// Recv2 is ReadFromUDPAddrPort plus the destination address.
func (c *UDPConn) Recv2(p []byte) (int, netip.AddrPort, netip.Addr, error) { return c.recv2(p) }

// PktInfo reports whether ancillary data was asked for.
func (c *UDPConn) PktInfo() bool { c.mu.Lock(); defer c.mu.Unlock(); return c.pktinfo }

func (c *UDPConn) Read(p []byte) (int, error) {
	n, _, err := c.recv(p)
	return n, err
}

func (c *UDPConn) ReadFrom(p []byte) (int, net.Addr, error) {
	n, from, err := c.recv(p)
	if err != nil {
		return 0, nil, err
	}
	return n, net.UDPAddrFromAddrPort(from), nil
}

func (c *UDPConn) ReadFromUDPAddrPort(p []byte) (int, netip.AddrPort, error) {
	return c.recv(p)
}

func (c *UDPConn) ReadMsgUDPAddrPort(b, oob []byte) (n, oobn, flags int, addr netip.AddrPort, err error) {
	var to netip.Addr
	n, addr, to, err = c.recv2(b)
	if err == nil && c.PktInfo() && MakePktInfo != nil && to.IsValid() {
		oobn = copy(oob, MakePktInfo(to))
	}
	return n, oobn, 0, addr, err
}

func (c *UDPConn) Write(p []byte) (int, error) {
	if !c.remote.IsValid() {
		return 0, opErr("write", "udp", sysErr("sendto", syscall.EDESTADDRREQ))
	}
	return c.send(p, c.remote)
}

func (c *UDPConn) WriteTo(p []byte, addr net.Addr) (int, error) {
	ua, ok := addr.(*net.UDPAddr)
	if !ok {
		return 0, opErr("write", "udp", syscall.EINVAL)
	}
	return c.send(p, ua.AddrPort())
}

func (c *UDPConn) WriteToUDPAddrPort(p []byte, ap netip.AddrPort) (int, error) { return c.send(p, ap) }

func (c *UDPConn) WriteMsgUDPAddrPort(b, oob []byte, ap netip.AddrPort) (n, oobn int, err error) {
	var from netip.Addr
	if len(oob) > 0 && ParsePktInfo != nil {
		// IP_PKTINFO on a send chooses the source address
		a, perr := ParsePktInfo(oob)
		if perr != nil {
			return 0, 0, opErr("write", "udp", sysErr("sendmsg", syscall.EINVAL))
		}
		if a.IsValid() && !a.IsUnspecified() {
			from = a
		}
	}
	n, err = c.sendFrom(b, ap, from)
	return n, len(oob), err
}

func (c *UDPConn) send(p []byte, to netip.AddrPort) (int, error) {
	return c.sendFrom(p, to, netip.Addr{})
}

func (c *UDPConn) sendFrom(p []byte, to netip.AddrPort, from netip.Addr) (int, error) {
	c.mu.Lock()
	if c.closed {
		c.mu.Unlock()
		return 0, opErr("write", "udp", net.ErrClosed)
	}
	if c.icmpErr {
		c.icmpErr = false
		c.mu.Unlock()
		return 0, opErr("write", "udp", sysErr("sendto", syscall.ECONNREFUSED))
	}
	to = netip.AddrPortFrom(to.Addr().Unmap().WithZone(""), to.Port())
	lk := c.Label
	if lk == "" {
		lk = "U" + c.local.String()
	}
	lk += ">" + to.String()
	if c.sendCtr == nil {
		c.sendCtr = map[string]uint64{}
	}
	c.sendCtr[lk]++
	ctr := c.sendCtr[lk]
	c.mu.Unlock()

	w, s := c.w, c.w.S
	src := netip.AddrPortFrom(c.local.Addr().Unmap(), c.local.Port())
	if from.IsValid() {
		src = netip.AddrPortFrom(from.Unmap(), src.Port())
	}
	if src.Addr().IsUnspecified() {
		if to.Addr().Is4() {
			src = netip.AddrPortFrom(w.ProxyAddr4, src.Port())
		} else {
			src = netip.AddrPortFrom(w.ProxyAddr6, src.Port())
		}
	}
	li := LinkInfo{ID: lk, Network: "udp", Owner: c.owner, Src: src, Dst: to}
	pol := w.dgramPolicy(li)
	if len(p) > pol.MTU {
		return 0, opErr("write", "udp", sysErr("sendto", syscall.EMSGSIZE))
	}
	data := append([]byte(nil), p...)
	w.logf("usend", "%s n=%d", lk, len(p))
	if w.OnUDPSend != nil {
		w.OnUDPSend(c.owner, src, to, data)
	}
	if RandProbe != nil {
		w.logf("rand_probe", "%d", RandProbe())
	}
	if w.Partitioned != nil && w.Partitioned(src.Addr(), to.Addr()) {
		s.Fault("partition_drop")
		return len(p), nil
	}
	if s.Coin(lk+"drop", ctr, pol.Drop) {
		s.Fault("dgram_drop")
		w.logf("udrop", "%s", lk)
		return len(p), nil
	}
	copies := 1
	if s.Coin(lk+"dup", ctr, pol.Dup) {
		s.Fault("dgram_dup")
		copies = 2
	}
	for i := 0; i < copies; i++ {
		b := data
		if s.Coin(lk+"cor", ctr*4+uint64(i), pol.Corrupt) && len(b) > 0 {
			s.Fault("dgram_corrupt")
			b = append([]byte(nil), data...)
			h := s.H(lk+"corx", ctr*4+uint64(i))
			if h&1 == 0 {
				b[int(h>>8)%len(b)] ^= 1 << ((h >> 3) & 7)
			} else {
				b = b[:int(h>>8)%len(b)]
			}
		}
		lat := s.Dur(lk+"lat", ctr*4+uint64(i), pol.LatMin, pol.LatMax)
		connected := c.remote.IsValid()
		s.After(lat, "udeliver", func() { w.deliverDgram(c, connected, src, to, b) })
	}
	return len(p), nil
}

func (w *World) deliverDgram(from *UDPConn, fromConnected bool, src, to netip.AddrPort, b []byte) {
	w.mu.Lock()
	var dst *UDPConn
	for _, k := range lookupKeys(to) {
		if ds := w.udp[k]; len(ds) > 0 {
			// SO_REUSEPORT group: the kernel picks by a hash of the 4-tuple
			dst = ds[int(sim.HashStr(src.String())%uint64(len(ds)))]
			break
		}
	}
	w.mu.Unlock()
	if dst == nil {
		w.logf("unoport", "%s", to)
		if w.ICMP && fromConnected {
			from.mu.Lock()
			if !from.closed {
				from.icmpErr = true
				from.signalLocked()
			}
			from.mu.Unlock()
		}
		return
	}
	seen := asSeenBy(src, dst.local.Addr())
	dst.mu.Lock()
	if dst.closed || (dst.remote.IsValid() && dst.remote != src) {
		dst.mu.Unlock()
		return
	}
	dst.q = append(dst.q, dgram{b: b, from: seen, to: to.Addr()})
	dst.signalLocked()
	cb := dst.OnRecv
	dst.mu.Unlock()
	w.logf("udeliver", "%s>%s n=%d", src, to, len(b))
	if cb != nil {
		cb(dst, b, seen)
	}
}

func (c *UDPConn) Close() error {
	c.mu.Lock()
	if c.closed {
		c.mu.Unlock()
		return opErr("close", "udp", net.ErrClosed)
	}
	c.closed = true
	c.q = nil
	c.signalLocked()
	c.mu.Unlock()
	c.w.mu.Lock()
	ds := c.w.udp[c.key]
	for i, d := range ds {
		if d == c {
			ds = append(ds[:i:i], ds[i+1:]...)
			break
		}
	}
	if len(ds) == 0 {
		delete(c.w.udp, c.key)
	} else {
		c.w.udp[c.key] = ds
	}
	if c.owner == OwnerProxy {
		if c.w.udpClosed == nil {
			c.w.udpClosed = map[uint16]time.Duration{}
		}
		c.w.udpClosed[c.local.Port()] = c.w.S.Now()
	}
	c.w.mu.Unlock()
	c.w.logf("uclose", "%s", c.key)
	return nil
}

func (w *World) listenUDP(owner Owner, address string, def netip.Addr, reuse bool) (*UDPConn, error) {
	var ap netip.AddrPort
	if address == "" || address == ":0" {
		ap = netip.AddrPortFrom(netip.IPv6Unspecified(), 0)
	} else {
		var err error
		ap, err = parseListenAddr(address)
		if err != nil {
			return nil, opErr("listen", "udp", err)
		}
	}
	w.mu.Lock()
	if ap.Port() == 0 {
		a := ap.Addr()
		if a.IsUnspecified() && def.IsValid() {
			a = def
		}
		ap = netip.AddrPortFrom(a, w.allocPortLocked(a))
	}
	key := ap.String()
	if ds := w.udp[key]; len(ds) > 0 && !(reuse && ds[0].reuse && ds[0].owner == owner) {
		w.mu.Unlock()
		return nil, opErr("listen", "udp", sysErr("bind", syscall.EADDRINUSE))
	}
	c := &UDPConn{w: w, id: w.newID(), owner: owner, key: key, local: ap, note: make(chan struct{}), reuse: reuse}
	w.udp[key] = append(w.udp[key], c)
	w.register(c)
	w.mu.Unlock()
	w.logf("ulisten", "%s owner=%s", key, owner)
	return c, nil
}

func (w *World) dialUDP(owner Owner, label string, src netip.Addr, address string) (*UDPConn, error) {
	aps, err := w.resolveAddrPort("udp", address)
	if w.OnDial != nil {
		r := ""
		if err == nil {
			r = aps[0].String()
		}
		w.OnDial(owner, "udp", address, r)
	}
	if err != nil {
		return nil, opErr("dial", "udp", err)
	}
	dst := aps[0]
	if !src.IsValid() {
		if dst.Addr().Is4() {
			src = w.ProxyAddr4
		} else {
			src = w.ProxyAddr6
		}
	}
	w.mu.Lock()
	lp := netip.AddrPortFrom(src, w.allocPortLocked(src))
	dk := "udp|" + dst.String()
	w.dialCount[dk]++
	n := w.dialCount[dk]
	c := &UDPConn{w: w, id: w.newID(), owner: owner, key: lp.String(), local: lp, remote: dst, note: make(chan struct{})}
	if label != "" {
		c.Label = label
	} else {
		c.Label = "P>" + dk + "#" + itoa(n)
	}
	w.udp[c.key] = append(w.udp[c.key], c)
	w.register(c)
	w.mu.Unlock()
	w.logf("udial", "%s owner=%s", c.Label, owner)
	return c, nil
}

// ID is the world-unique number of this socket.
func (c *UDPConn) ID() int { return c.id }

// RandProbe, when set, is logged at every datagram send (debugging aid for
// determinism: exposes the position of the runtime's random stream).
var RandProbe func() uint64

// ProxyUDPClosedAt is when the proxy closed its datagram socket bound to
// the given local port (simulator knowledge, for oracles).
func (w *World) ProxyUDPClosedAt(port int) (time.Duration, bool) {
	w.mu.Lock()
	defer w.mu.Unlock()
	t, ok := w.udpClosed[uint16(port)]
	return t, ok
}
