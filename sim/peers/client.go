package peers

import (
	"bytes"
	"context"
	"crypto/tls"
	"encoding/base64"
	"encoding/binary"
	"fmt"
	"io"
	"net"
	"net/http"
	"net/netip"
	"sort"
	"strings"
	"sync"
	"time"

	"github.com/IrineSistiana/mosproxy/verifsim/plan"
	"github.com/IrineSistiana/mosproxy/verifsim/refdns"
	"github.com/IrineSistiana/mosproxy/verifsim/sim"
	"github.com/IrineSistiana/mosproxy/verifsim/vnet"
)

// Resp is one response as a client received it.
type Resp struct {
	At     time.Duration
	B      []byte
	Status int // HTTP status (0 for non-HTTP)
}

// OpRecord is the client-side history of one operation.
type OpRecord struct {
	Op     *plan.ClientOp
	Query  []byte
	SentAt time.Duration
	Sent   bool
	Resps  []Resp
	Err    string
}

// ConnRecord is the client-side history of one transport.
type ConnRecord struct {
	Conn       *plan.ClientConn
	Proto      string
	DialErr    string
	OpenedAt   time.Duration
	ClosedAt   time.Duration // when the client closed it
	PeerGoneAt time.Duration // when the client saw EOF / reset (0 = never)
	Stream     []byte        // every inbound byte of a stream transport
	FrameErr   string
	Unmatched  []Resp // responses that match no op of this transport
}

// BuildQuery makes the wire form of an op's query.
func BuildQuery(op *plan.ClientOp) []byte {
	if op.Raw != nil {
		return op.Raw
	}
	m := &refdns.Msg{ID: op.ID, Bits: op.Bits}
	name := refdns.NameFromLabels(op.Labels...)
	for i := 0; i < op.NQ; i++ {
		q := refdns.Question{Name: name, Type: op.Type, Class: op.Class}
		if i > 0 {
			q.Type = op.Type + uint16(i)
			if op.DistinctQ && len(op.Labels) > 0 {
				// names that share no suffix: nothing for compression to gain
				ls := append([][]byte{}, op.Labels...)
				ls[len(ls)-1] = []byte(fmt.Sprintf("q%d", i))
				q.Name = refdns.NameFromLabels(ls...)
			}
		}
		m.Q = append(m.Q, q)
	}
	if e := op.EDNS; e != nil {
		var os []refdns.EDNSOption
		for _, o := range e.Options {
			os = append(os, refdns.EDNSOption{Code: o.Code, Data: o.Data})
		}
		m.Ar = append(m.Ar, refdns.RR{Name: refdns.Root, Type: refdns.TypeOPT, Class: e.UDPSize, TTL: e.TTL, Data: refdns.PackOptions(os)})
	}
	return refdns.Pack(m, refdns.PackOpts{})
}

// Clients runs every client transport of a plan.
type Clients struct {
	S       *sim.Sim
	W       *vnet.World
	PKI     *PKI
	Servers []plan.ServerSpec
	Conns   []plan.ClientConn
	Ops     []plan.ClientOp

	mu    sync.Mutex
	OpRec []*OpRecord
	CnRec []*ConnRecord
	wg    sync.WaitGroup
}

func (c *Clients) Start() {
	c.OpRec = make([]*OpRecord, len(c.Ops))
	for i := range c.Ops {
		c.OpRec[i] = &OpRecord{Op: &c.Ops[i]}
	}
	byConn := map[int][]*OpRecord{}
	for _, r := range c.OpRec {
		byConn[r.Op.Conn] = append(byConn[r.Op.Conn], r)
	}
	c.CnRec = make([]*ConnRecord, len(c.Conns))
	for i := range c.Conns {
		cc := &c.Conns[i]
		cr := &ConnRecord{Conn: cc}
		c.CnRec[i] = cr
		ops := byConn[cc.Idx]
		sort.SliceStable(ops, func(a, b int) bool { return ops[a].Op.AtUs < ops[b].Op.AtUs })
		if len(ops) == 0 || cc.Server >= len(c.Servers) {
			continue
		}
		srv := c.Servers[cc.Server]
		cr.Proto = srv.Proto
		c.wg.Add(1)
		go func() {
			defer c.wg.Done()
			switch srv.Proto {
			case "udp", "":
				c.runUDP(cc, cr, srv, ops)
			case "tcp", "gnet", "tls":
				c.runStream(cc, cr, srv, ops)
			case "http", "fasthttp", "https":
				c.runHTTP(cc, cr, srv, ops)
			case "quic":
				c.runQUIC(cc, cr, srv, ops)
			}
		}()
	}
}

func (c *Clients) Wait() { c.wg.Wait() }

func (c *Clients) sleepUntil(us int64) {
	d := time.Duration(us)*time.Microsecond - c.S.Now()
	if d > 0 {
		time.Sleep(d)
	}
}

func dialTarget(listen string) string {
	host, port, err := net.SplitHostPort(listen)
	if err != nil {
		return listen
	}
	if host == "" || host == "::" {
		host = "::1"
	} else if host == "0.0.0.0" {
		host = "127.0.0.1"
	}
	return net.JoinHostPort(host, port)
}

// targetFor picks the address a client from src must use to reach listen.
func targetFor(listen string, src netip.Addr) (network, addr string) {
	if len(listen) > 0 && listen[0] == '@' {
		return "unix", listen
	}
	host, port, err := net.SplitHostPort(listen)
	if err != nil {
		return "tcp", listen
	}
	if host == "" || host == "::" || host == "0.0.0.0" {
		// wildcard: any destination address of the client's family reaches it
		if src.Is4() {
			host = "10.99.0.1"
		} else {
			host = "fd00:99::1"
		}
	}
	return "tcp", net.JoinHostPort(host, port)
}

func (c *Clients) runUDP(cc *plan.ClientConn, cr *ConnRecord, srv plan.ServerSpec, ops []*OpRecord) {
	src := netip.MustParseAddr(cc.Src)
	_, target := targetFor(srv.Listen, src)
	if cc.AltDst {
		// the proxy host's second address of that family
		if ap, err := netip.ParseAddrPort(target); err == nil {
			if ap.Addr().Is4() {
				target = netip.AddrPortFrom(netip.MustParseAddr("10.99.0.2"), ap.Port()).String()
			} else {
				target = netip.AddrPortFrom(netip.MustParseAddr("fd00:99::2"), ap.Port()).String()
			}
		}
	}
	c.sleepUntil(ops[0].Op.AtUs - 50)
	uc, err := c.W.PeerDialUDP(fmt.Sprintf("C%d", cc.Idx), src, target)
	if err != nil {
		cr.DialErr = err.Error()
		return
	}
	cr.OpenedAt = c.S.Now()
	byID := map[uint16][]*OpRecord{}
	for _, o := range ops {
		byID[o.Op.ID] = append(byID[o.Op.ID], o)
	}
	done := make(chan struct{})
	go func() {
		defer close(done)
		buf := make([]byte, 65535)
		for {
			n, err := uc.Read(buf)
			if err != nil {
				return
			}
			r := Resp{At: c.S.Now(), B: append([]byte(nil), buf[:n]...)}
			c.S.Logf("cl_resp", "C%d n=%d", cc.Idx, n)
			c.attach(cr, byID, r)
		}
	}()
	for _, o := range ops {
		c.sleepUntil(o.Op.AtUs)
		o.Query = BuildQuery(o.Op)
		o.SentAt = c.S.Now()
		o.Sent = true
		c.S.Logf("cl_send", "C%d op=%d udp n=%d", cc.Idx, o.Op.Idx, len(o.Query))
		if _, err := uc.Write(o.Query); err != nil {
			o.Err = err.Error()
		}
	}
	time.Sleep(time.Duration(cc.LingerUs) * time.Microsecond)
	cr.ClosedAt = c.S.Now()
	uc.Close()
	<-done
}

// attach gives a response to the first op with that ID that was sent; a
// response with fewer than 2 bytes or an unknown ID is unmatched.
func (c *Clients) attach(cr *ConnRecord, byID map[uint16][]*OpRecord, r Resp) {
	c.mu.Lock()
	defer c.mu.Unlock()
	if len(r.B) >= 2 {
		id := binary.BigEndian.Uint16(r.B)
		cands := byID[id]
		// prefer the earliest sent op with this id that has no response yet
		var pick *OpRecord
		for _, o := range cands {
			if o.Sent && len(o.Resps) == 0 {
				pick = o
				break
			}
		}
		if pick == nil {
			for _, o := range cands {
				if o.Sent {
					pick = o
				}
			}
		}
		if pick != nil {
			pick.Resps = append(pick.Resps, r)
			return
		}
	}
	cr.Unmatched = append(cr.Unmatched, r)
}

func (c *Clients) clientTLS(cc *plan.ClientConn, serverName string, alpn ...string) *tls.Config {
	cfg := &tls.Config{RootCAs: c.PKI.Pool(), ServerName: serverName, NextProtos: alpn}
	switch cc.ClientCert {
	case "good":
		cert, _, _ := c.PKI.Leaf("good", true, "client.test")
		cfg.Certificates = []tls.Certificate{cert}
	case "otherca", "expired", "selfsigned", "notyet":
		// presented whatever the server's list of acceptable CAs says (a
		// well-behaved client would send nothing; one that wants in does not
		// ask): whether the chain is verified is the server's business
		cert, _, _ := c.PKI.Leaf(cc.ClientCert, true, "client.test")
		cfg.GetClientCertificate = func(*tls.CertificateRequestInfo) (*tls.Certificate, error) { return &cert, nil }
	}
	return cfg
}

// ProxyServerName is the DNS name in the proxy's listener certificates.
const ProxyServerName = "proxy.test"

func (c *Clients) runStream(cc *plan.ClientConn, cr *ConnRecord, srv plan.ServerSpec, ops []*OpRecord) {
	src := netip.MustParseAddr(cc.Src)
	network, target := targetFor(srv.Listen, src)
	c.sleepUntil(ops[0].Op.AtUs - 2000)
	ctx, cancel := context.WithTimeout(context.Background(), 5*time.Second)
	raw, err := c.W.PeerDial(ctx, fmt.Sprintf("C%d", cc.Idx), src, network, target)
	cancel()
	if err != nil {
		cr.DialErr = err.Error()
		return
	}
	var conn net.Conn = raw
	if srv.Proto == "tls" && cc.ClientCert != "plain" {
		tc := tls.Client(raw, c.clientTLS(cc, ProxyServerName))
		raw.SetDeadline(time.Now().Add(5 * time.Second))
		if err := tc.Handshake(); err != nil {
			cr.DialErr = "tls: " + err.Error()
			if !cc.PlainAfterFail {
				raw.Close()
				return
			}
			// carry on in the clear on the same connection
			raw.SetDeadline(time.Time{})
		} else {
			raw.SetDeadline(time.Time{})
			conn = tc
		}
	}
	cr.OpenedAt = c.S.Now()
	byID := map[uint16][]*OpRecord{}
	for _, o := range ops {
		byID[o.Op.ID] = append(byID[o.Op.ID], o)
	}
	done := make(chan struct{})
	go func() {
		defer close(done)
		buf := make([]byte, 32768)
		var pend []byte
		for {
			n, err := conn.Read(buf)
			if n > 0 {
				c.mu.Lock()
				cr.Stream = append(cr.Stream, buf[:n]...)
				c.mu.Unlock()
				pend = append(pend, buf[:n]...)
				for len(pend) >= 2 {
					l := int(binary.BigEndian.Uint16(pend))
					if len(pend) < 2+l {
						break
					}
					r := Resp{At: c.S.Now(), B: append([]byte(nil), pend[2:2+l]...)}
					pend = pend[2+l:]
					c.S.Logf("cl_resp", "C%d n=%d", cc.Idx, l)
					c.attach(cr, byID, r)
				}
			}
			if err != nil {
				c.mu.Lock()
				if cr.ClosedAt == 0 {
					cr.PeerGoneAt = c.S.Now()
				}
				if len(pend) > 0 {
					cr.FrameErr = fmt.Sprintf("%d trailing bytes that do not form a frame", len(pend))
				}
				c.mu.Unlock()
				return
			}
		}
	}()
	if cc.Straddle {
		var held []byte
		var heldOp *OpRecord
		flush := func(next []byte) {
			out := append(append([]byte{}, held...), next...)
			if heldOp != nil {
				heldOp.SentAt = c.S.Now() // complete only now
				heldOp.Sent = true
			}
			if len(out) > 0 {
				if _, err := conn.Write(out); err != nil && heldOp != nil {
					heldOp.Err = err.Error()
				}
			}
			heldOp = nil
		}
		for _, o := range ops {
			c.sleepUntil(o.Op.AtUs)
			q := BuildQuery(o.Op)
			o.Query = q
			f := binary.BigEndian.AppendUint16(nil, uint16(len(q)))
			f = append(f, q...)
			cut := len(f) - 1 - int(c.S.H("straddle", uint64(o.Op.Idx))%uint64(min(len(f)-1, 9)))
			c.S.Logf("cl_send", "C%d op=%d stream straddle head=%d", cc.Idx, o.Op.Idx, cut)
			flush(f[:cut])
			held, heldOp = f[cut:], o
		}
		time.Sleep(time.Second)
		flush(nil)
		time.Sleep(time.Duration(cc.LingerUs) * time.Microsecond)
		c.mu.Lock()
		cr.ClosedAt = c.S.Now()
		c.mu.Unlock()
		conn.Close()
		<-done
		return
	}
	for i := 0; i < len(ops); {
		o := ops[i]
		c.sleepUntil(o.Op.AtUs)
		var out []byte
		j := i
		for j < len(ops) && (j == i || cc.Coalesce && ops[j].Op.AtUs <= o.Op.AtUs+50) {
			q := BuildQuery(ops[j].Op)
			ops[j].Query = q
			ops[j].SentAt = c.S.Now()
			ops[j].Sent = true
			if ops[j].Op.Raw != nil && ops[j].Op.Method == "rawframe" {
				out = append(out, q...) // raw bytes carry their own (possibly lying) prefix
			} else {
				out = binary.BigEndian.AppendUint16(out, uint16(len(q)))
				out = append(out, q...)
			}
			j++
		}
		c.S.Logf("cl_send", "C%d ops=%d..%d stream n=%d", cc.Idx, o.Op.Idx, ops[j-1].Op.Idx, len(out))
		if _, err := conn.Write(out); err != nil {
			for k := i; k < j; k++ {
				ops[k].Err = err.Error()
			}
		}
		i = j
	}
	time.Sleep(time.Duration(cc.LingerUs) * time.Microsecond)
	c.mu.Lock()
	cr.ClosedAt = c.S.Now()
	c.mu.Unlock()
	conn.Close()
	<-done
}

func (c *Clients) runHTTP(cc *plan.ClientConn, cr *ConnRecord, srv plan.ServerSpec, ops []*OpRecord) {
	src := netip.MustParseAddr(cc.Src)
	network, target := targetFor(srv.Listen, src)
	ndial := 0
	var dmu sync.Mutex
	tr := &http.Transport{
		DialContext: func(ctx context.Context, _, _ string) (net.Conn, error) {
			dmu.Lock()
			ndial++
			n := ndial
			dmu.Unlock()
			return c.W.PeerDial(ctx, fmt.Sprintf("C%d.%d", cc.Idx, n), src, network, target)
		},
		ForceAttemptHTTP2:   cc.HTTP2,
		MaxIdleConnsPerHost: 4,
		IdleConnTimeout:     time.Duration(cc.LingerUs) * time.Microsecond,
		DisableCompression:  true,
	}
	scheme := "http"
	if srv.Proto == "https" {
		scheme = "https"
		alpn := []string{"http/1.1"}
		if cc.HTTP2 {
			alpn = []string{"h2", "http/1.1"}
		}
		tr.TLSClientConfig = c.clientTLS(cc, ProxyServerName, alpn...)
	}
	cr.OpenedAt = c.S.Now()
	var wg sync.WaitGroup
	for _, o := range ops {
		c.sleepUntil(o.Op.AtUs)
		o.Query = BuildQuery(o.Op)
		o.SentAt = c.S.Now()
		o.Sent = true
		wg.Add(1)
		go func() {
			defer wg.Done()
			url := scheme + "://" + ProxyServerName + "/dns-query"
			var req *http.Request
			ctx, cancel := context.WithTimeout(context.Background(), 12*time.Second)
			defer cancel()
			method := o.Op.Method
			if method == "" {
				method = "GET"
			}
			if strings.HasPrefix(o.Op.HTTPVariant, "raw_") {
				c.rawHTTP(ctx, cc, srv, o, src, network, target)
				return
			}
			switch o.Op.HTTPVariant {
			case "put":
				method = "PUT"
			}
			if method == "GET" {
				enc := base64.RawURLEncoding.EncodeToString(o.Query)
				if o.Op.HTTPVariant == "bad_b64" {
					enc = "!!" + enc + "=="
				}
				req, _ = http.NewRequestWithContext(ctx, "GET", url+"?dns="+enc, nil)
				if o.Op.HTTPVariant == "bad_accept" {
					req.Header.Set("Accept", "text/html")
				} else {
					req.Header.Set("Accept", "application/dns-message")
				}
			} else {
				req, _ = http.NewRequestWithContext(ctx, method, url, bytes.NewReader(o.Query))
				if o.Op.HTTPVariant == "bad_ctype" {
					req.Header.Set("Content-Type", "text/plain")
				} else {
					req.Header.Set("Content-Type", "application/dns-message")
				}
			}
			if cc.XFF != "" && srv.ClientAddrHeader != "" {
				req.Header.Set(srv.ClientAddrHeader, cc.XFF)
			}
			c.S.Logf("cl_send", "C%d op=%d http %s", cc.Idx, o.Op.Idx, method)
			resp, err := tr.RoundTrip(req)
			if err != nil {
				c.mu.Lock()
				o.Err = err.Error()
				c.mu.Unlock()
				c.S.Logf("cl_http_err", "C%d op=%d", cc.Idx, o.Op.Idx)
				return
			}
			body, _ := io.ReadAll(io.LimitReader(resp.Body, 1<<20))
			resp.Body.Close()
			c.mu.Lock()
			o.Resps = append(o.Resps, Resp{At: c.S.Now(), B: body, Status: resp.StatusCode})
			c.mu.Unlock()
			c.S.Logf("cl_resp", "C%d op=%d status=%d n=%d", cc.Idx, o.Op.Idx, resp.StatusCode, len(body))
		}()
	}
	wg.Wait()
	time.Sleep(time.Duration(cc.LingerUs) * time.Microsecond)
	cr.ClosedAt = c.S.Now()
	tr.CloseIdleConnections()
}

// rawHTTP sends a hand-written HTTP/1.1 request (things net/http's client
// would never put on the wire) on a connection of its own and records the
// status line of whatever comes back.
func (c *Clients) rawHTTP(ctx context.Context, cc *plan.ClientConn, srv plan.ServerSpec, o *OpRecord, src netip.Addr, network, target string) {
	raw, err := c.W.PeerDial(ctx, fmt.Sprintf("C%d.raw%d", cc.Idx, o.Op.Idx), src, network, target)
	if err != nil {
		c.mu.Lock()
		o.Err = err.Error()
		c.mu.Unlock()
		return
	}
	defer raw.Close()
	var conn net.Conn = raw
	if srv.Proto == "https" {
		tc := tls.Client(raw, c.clientTLS(cc, ProxyServerName, "http/1.1"))
		raw.SetDeadline(time.Now().Add(5 * time.Second))
		if err := tc.Handshake(); err != nil {
			c.mu.Lock()
			o.Err = "tls: " + err.Error()
			c.mu.Unlock()
			return
		}
		raw.SetDeadline(time.Time{})
		conn = tc
	}
	q := o.Query
	head := "POST /dns-query HTTP/1.1\r\nHost: " + ProxyServerName + "\r\nContent-Type: application/dns-message\r\nAccept: application/dns-message\r\n"
	var req []byte
	switch o.Op.HTTPVariant {
	case "raw_no_length": // a body-less POST without Content-Length
		req = []byte(head + "\r\n")
	case "raw_no_length_close":
		req = []byte(head + "Connection: close\r\n\r\n")
	case "raw_chunked": // the query in two chunks
		h := len(q) / 2
		req = []byte(head + "Transfer-Encoding: chunked\r\n\r\n")
		req = append(req, fmt.Sprintf("%x\r\n", h)...)
		req = append(append(req, q[:h]...), "\r\n"...)
		req = append(req, fmt.Sprintf("%x\r\n", len(q)-h)...)
		req = append(append(req, q[h:]...), "\r\n0\r\n\r\n"...)
	case "raw_chunk_garbage":
		req = []byte(head + "Transfer-Encoding: chunked\r\n\r\nzz\r\n" + string(q) + "\r\n")
	case "raw_short_body": // Content-Length promises more than follows, then the client waits
		req = append([]byte(head+fmt.Sprintf("Content-Length: %d\r\n\r\n", len(q)+40)), q...)
	case "raw_huge_length":
		req = append([]byte(head+"Content-Length: 4294967296\r\n\r\n"), q...)
	case "raw_neg_length":
		req = append([]byte(head+"Content-Length: -1\r\n\r\n"), q...)
	case "raw_http10":
		req = append([]byte("POST /dns-query HTTP/1.0\r\nContent-Type: application/dns-message\r\n"+fmt.Sprintf("Content-Length: %d\r\n\r\n", len(q))), q...)
	case "raw_get_no_param":
		req = []byte("GET /dns-query HTTP/1.1\r\nHost: " + ProxyServerName + "\r\nAccept: application/dns-message\r\n\r\n")
	case "raw_get_empty_param":
		req = []byte("GET /dns-query?dns= HTTP/1.1\r\nHost: " + ProxyServerName + "\r\nAccept: application/dns-message\r\n\r\n")
	case "raw_garbage_line":
		req = []byte("\x00\x01GARBAGE\r\n\r\n")
	case "raw_long_header":
		req = []byte(head + "X-Pad: " + strings.Repeat("a", 20000) + "\r\n" + fmt.Sprintf("Content-Length: %d\r\n\r\n", len(q)))
		req = append(req, q...)
	default:
		req = append([]byte(head+fmt.Sprintf("Content-Length: %d\r\n\r\n", len(q))), q...)
	}
	c.S.Logf("cl_send", "C%d op=%d http %s n=%d", cc.Idx, o.Op.Idx, o.Op.HTTPVariant, len(req))
	conn.SetDeadline(time.Now().Add(4 * time.Second))
	conn.Write(req)
	buf := make([]byte, 0, 4096)
	tmp := make([]byte, 2048)
	for len(buf) < 1<<16 {
		n, err := conn.Read(tmp)
		buf = append(buf, tmp[:n]...)
		if err != nil || bytes.Contains(buf, []byte("\r\n\r\n")) {
			break
		}
	}
	status := 0
	if len(buf) >= 12 && bytes.HasPrefix(buf, []byte("HTTP/1.")) {
		fmt.Sscanf(string(buf[9:12]), "%d", &status)
	}
	if status != 0 {
		c.mu.Lock()
		o.Resps = append(o.Resps, Resp{At: c.S.Now(), B: nil, Status: status})
		c.mu.Unlock()
	}
	c.S.Logf("cl_resp", "C%d op=%d status=%d raw", cc.Idx, o.Op.Idx, status)
}
