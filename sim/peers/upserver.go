package peers

import (
	"bytes"
	"crypto/tls"
	"encoding/base64"
	"encoding/binary"
	"fmt"
	quic "github.com/quic-go/quic-go"
	"io"
	"net"
	"net/http"
	"net/netip"
	"sort"
	"strconv"
	"strings"
	"sync"
	"time"

	"github.com/IrineSistiana/mosproxy/verifsim/plan"
	"github.com/IrineSistiana/mosproxy/verifsim/refdns"
	"github.com/IrineSistiana/mosproxy/verifsim/sim"
	"github.com/IrineSistiana/mosproxy/verifsim/vnet"
)

// UpQuery is one query as a fake upstream saw it.
type UpQuery struct {
	At      time.Duration
	Up      string
	Proto   string
	Conn    int
	WireID  uint16
	Token   string
	Name    refdns.Name
	Type    uint16
	Class   uint16
	Bits    uint16
	NQ      int
	OPTs    []refdns.RR
	NAr     int
	ECS     string
	Arrival int // how many times this token arrived at this upstream before
	// OutstandingBefore is the number of queries on the same connection that
	// had not been fully answered when this one arrived (C06).
	OutstandingBefore int
	SNI, Host, Path   string
	Decoded           bool
	Raw               []byte
}

// UpReply is one reply a fake upstream sent (or a fault it enacted).
type UpReply struct {
	At     time.Duration
	Up     string
	Conn   int
	WireID uint16
	Token  string
	Serial int
	Kind   string
	Key    string
	Bytes  int
	// Arrival is the arrival number of the query this reply answers (selects the answer spec).
	Arrival int
	// SentID is the transaction id the reply carried on the wire.
	SentID uint16
	// QueryAt is when the query reached the server.
	QueryAt time.Duration
	ECS     string
}

type UpServer struct {
	S      *sim.Sim
	W      *vnet.World
	Seed   uint64
	Spec   plan.UpstreamSpec
	Tokens map[string]*plan.TokenSpec
	PKI    *PKI
	// DefaultAns is used for tokens without a spec.
	DefaultAns plan.AnswerSpec

	mu       sync.Mutex
	Queries  []UpQuery
	Replies  []UpReply
	serials  map[string]int
	arrivals map[string]int
	// ConnGone is when the server noticed that a stream connection was closed by the peer.
	ConnGone map[int]time.Duration
	// ConnAbandoned is when the proxy closed its end of a stream connection
	// (simulator knowledge; earlier than ConnGone by the latency of the FIN).
	ConnAbandoned map[int]time.Duration
	connSeq       int
	conns         map[int]*upConn
	ln            *vnet.TCPListener
	uc            *vnet.UDPConn
	hs            *http.Server
	down          bool
	extra         []io.Closer

	// ReplayOnReuse: when a wire id arrives a second time on one connection,
	// the reply sent for its first use goes out once more before the new one
	// (a late duplicate - legal on a datagram path).  A client that never
	// re-uses an id on a connection cannot see this.
	ReplayOnReuse bool
	sentByID      map[[2]int][]byte
	qconns        map[int]quic.Connection // DoQ connections (closed by CloseIdleConns)
}

type upConn struct {
	id          int
	c           net.Conn
	raw         *vnet.StreamConn
	outstanding int
	idle        bool
	// wedged: a partial frame was written; nothing more may follow on this
	// connection, or the byte stream would turn into decodable garbage that
	// no property speaks about.
	wedged bool
	// pending: wire ids of the queries not answered yet (stream kinds)
	pending []uint16
}

func NewUpServer(s *sim.Sim, w *vnet.World, seed uint64, spec plan.UpstreamSpec, tokens map[string]*plan.TokenSpec, pki *PKI) *UpServer {
	return &UpServer{S: s, W: w, Seed: seed, Spec: spec, Tokens: tokens, PKI: pki,
		serials: map[string]int{}, arrivals: map[string]int{}, conns: map[int]*upConn{}, ConnGone: map[int]time.Duration{}, ConnAbandoned: map[int]time.Duration{},
		DefaultAns: plan.AnswerSpec{NAn: 1, TTLs: []uint32{300}, Shape: "plain"}}
}

func (u *UpServer) addr() string {
	if strings.HasPrefix(u.Spec.Host, "@") {
		return u.Spec.Host
	}
	return net.JoinHostPort(u.Spec.Host, strconv.Itoa(u.Spec.Port))
}

func (u *UpServer) streamNet() string {
	if strings.HasPrefix(u.Spec.Host, "@") {
		return "unix"
	}
	return "tcp"
}

func (u *UpServer) tlsConfig(alpn ...string) *tls.Config {
	prof := u.Spec.TLS
	if prof == "" {
		prof = "good"
	}
	names := []string{u.Spec.Host}
	if h := hostOfAddr(u.Spec.Addr); h != "" && h != u.Spec.Host {
		names = append([]string{h}, names...)
	}
	cert, _, _ := u.PKI.Leaf(prof, false, names...)
	return &tls.Config{Certificates: []tls.Certificate{cert}, NextProtos: alpn}
}

// hostOfAddr extracts the host part of an upstream address as configured.
func hostOfAddr(a string) string {
	if i := strings.Index(a, "://"); i >= 0 {
		a = a[i+3:]
	}
	if i := strings.IndexByte(a, '/'); i >= 0 {
		a = a[:i]
	}
	if h, _, err := net.SplitHostPort(a); err == nil {
		return h
	}
	return strings.Trim(a, "[]")
}

// Start opens the server's sockets according to its kind.
func (u *UpServer) Start() error {
	u.mu.Lock()
	u.down = false
	u.mu.Unlock()
	switch u.Spec.Kind {
	case "udp":
		if err := u.startUDP(); err != nil {
			return err
		}
		return u.startStream(false)
	case "tcp", "tcp+pipeline":
		return u.startStream(false)
	case "tls", "tls+pipeline":
		return u.startStream(true)
	case "https", "http":
		return u.startHTTP(u.Spec.Kind == "https")
	case "quic", "h3":
		return u.startQUIC()
	}
	return fmt.Errorf("upserver: unknown kind %q", u.Spec.Kind)
}

// Stop closes listeners and resets connections (a crash).
func (u *UpServer) Stop() {
	u.mu.Lock()
	u.down = true
	ln, uc, hs := u.ln, u.uc, u.hs
	u.ln, u.uc, u.hs = nil, nil, nil
	conns := u.conns
	u.conns = map[int]*upConn{}
	extra := u.extra
	u.extra = nil
	u.mu.Unlock()
	if ln != nil {
		ln.Close()
	}
	if uc != nil {
		uc.Close()
	}
	if hs != nil {
		hs.Close()
	}
	for _, c := range extra {
		c.Close()
	}
	for _, id := range sortedConnIDs(conns) {
		c := conns[id]
		if c.raw != nil {
			c.raw.Reset()
		} else {
			c.c.Close()
		}
	}
}

func sortedConnIDs(m map[int]*upConn) []int {
	ids := make([]int, 0, len(m))
	for id := range m {
		ids = append(ids, id)
	}
	for i := 1; i < len(ids); i++ {
		for j := i; j > 0 && ids[j] < ids[j-1]; j-- {
			ids[j], ids[j-1] = ids[j-1], ids[j]
		}
	}
	return ids
}

// CloseIdleConns closes (FIN) every connection with nothing outstanding.
func (u *UpServer) CloseIdleConns() int {
	u.mu.Lock()
	var cs []*upConn
	for _, id := range sortedConnIDs(u.conns) {
		if c := u.conns[id]; c.outstanding == 0 {
			cs = append(cs, c)
			delete(u.conns, id)
		}
	}
	// (DoQ: the connections are closed with CONNECTION_CLOSE, which the peer
	// learns at once - "idle for too long")
	var qs []quic.Connection
	for _, id := range sortedQIDs(u.qconns) {
		qs = append(qs, u.qconns[id])
		delete(u.qconns, id)
	}
	u.mu.Unlock()
	for _, c := range cs {
		c.c.Close()
	}
	for _, c := range qs {
		c.CloseWithError(0, "idle for too long")
	}
	return len(cs) + len(qs)
}

func sortedQIDs(m map[int]quic.Connection) []int {
	ids := make([]int, 0, len(m))
	for id := range m {
		ids = append(ids, id)
	}
	sort.Ints(ids)
	return ids
}

// ResetAll resets every connection.
func (u *UpServer) ResetAll() {
	u.mu.Lock()
	conns := u.conns
	u.conns = map[int]*upConn{}
	u.mu.Unlock()
	for _, id := range sortedConnIDs(conns) {
		if c := conns[id]; c.raw != nil {
			c.raw.Reset()
		} else {
			c.c.Close()
		}
	}
}

func (u *UpServer) startUDP() error {
	uc, err := u.W.PeerListenUDP(u.addr())
	if err != nil {
		return err
	}
	uc.Label = "S" + u.Spec.Tag
	u.mu.Lock()
	u.uc = uc
	u.mu.Unlock()
	go func() {
		buf := make([]byte, 65535)
		for {
			n, from, err := uc.ReadFromUDPAddrPort(buf)
			if err != nil {
				return
			}
			b := append([]byte(nil), buf[:n]...)
			// one pseudo-connection per client socket
			cid := int(from.Port())
			u.handle(b, "udp", cid, qctx{}, func(r []byte) { uc.WriteToUDPAddrPort(r, from) }, connCtl{})
		}
	}()
	return nil
}

type qctx struct{ sni, host, path string }

type connCtl struct {
	// split writes a, pauses, writes b - with nothing else written to the
	// connection in between (stream kinds only)
	split func(a []byte, pause time.Duration, b []byte)
	fin   func()
	rst   func()
	raw   func([]byte)
}

func (u *UpServer) startStream(useTLS bool) error {
	ln, err := u.W.PeerListen(u.streamNet(), u.addr())
	if err != nil {
		return err
	}
	u.mu.Lock()
	u.ln = ln
	u.mu.Unlock()
	var cfg *tls.Config
	if useTLS {
		cfg = u.tlsConfig()
	}
	go func() {
		for {
			c, err := ln.Accept()
			if err != nil {
				return
			}
			go u.serveStream(c.(*vnet.StreamConn), cfg)
		}
	}()
	return nil
}

func (u *UpServer) serveStream(raw *vnet.StreamConn, cfg *tls.Config) {
	var c net.Conn = raw
	qc := qctx{}
	proto := "tcp"
	if cfg != nil {
		proto = "tls"
		tc := tls.Server(raw, cfg)
		raw.SetDeadline(time.Now().Add(10 * time.Second))
		if err := tc.Handshake(); err != nil {
			u.S.Logf("up_tls_fail", "%s %v", u.Spec.Tag, err)
			raw.Close()
			return
		}
		raw.SetDeadline(time.Time{})
		qc.sni = tc.ConnectionState().ServerName
		c = tc
	}
	u.mu.Lock()
	if u.down {
		u.mu.Unlock()
		raw.Reset()
		return
	}
	u.connSeq++
	uc := &upConn{id: u.connSeq, c: c, raw: raw}
	u.conns[uc.id] = uc
	u.mu.Unlock()
	// (a channel, not a mutex: a writer may pause while it holds the connection,
	// and goroutines waiting on a real mutex would stop the fake clock)
	wsem := make(chan struct{}, 1)
	write := func(b []byte) {
		wsem <- struct{}{}
		c.Write(b)
		<-wsem
	}
	ctl := connCtl{
		fin: func() { c.Close() },
		rst: func() { raw.Reset() },
		raw: write,
		split: func(a []byte, pause time.Duration, b []byte) {
			wsem <- struct{}{}
			defer func() { <-wsem }()
			c.Write(a)
			time.Sleep(pause)
			c.Write(b)
		},
	}
	for {
		var h [2]byte
		if _, err := io.ReadFull(c, h[:]); err != nil {
			break
		}
		b := make([]byte, binary.BigEndian.Uint16(h[:]))
		if got, err := io.ReadFull(c, b); err != nil {
			// a frame whose length prefix and every byte that followed are the
			// release poison: the proxy wrote a buffer it had already released
			if h[0] == 0xDB && h[1] == 0xDB && got >= 6 && poisonRun(b[:got]) == got {
				u.S.Fail("C20", "released-memory-on-the-wire", "upstream %s (%s, conn %d) received a frame of %d bytes, prefix included, that consists of the release poison pattern: a buffer was written to the connection after it had been released", u.Spec.Tag, proto, uc.id, got+2)
			}
			break
		}
		u.handle(b, proto, uc.id, qc, func(r []byte) {
			f := make([]byte, 2+len(r))
			binary.BigEndian.PutUint16(f, uint16(len(r)))
			copy(f[2:], r)
			write(f)
		}, ctl)
	}
	u.mu.Lock()
	delete(u.conns, uc.id)
	u.ConnGone[uc.id] = u.S.Now()
	if t, ok := raw.PeerClosedAt(); ok {
		u.ConnAbandoned[uc.id] = t
	}
	u.mu.Unlock()
	c.Close()
}

func (u *UpServer) startHTTP(useTLS bool) error {
	ln, err := u.W.PeerListen(u.streamNet(), u.addr())
	if err != nil {
		return err
	}
	hs := &http.Server{Handler: http.HandlerFunc(u.serveHTTP)}
	u.mu.Lock()
	u.ln = ln
	u.hs = hs
	u.mu.Unlock()
	if useTLS {
		alpn := []string{"h2", "http/1.1"}
		if u.Spec.HTTP1 {
			alpn = []string{"http/1.1"}
			hs.TLSNextProto = map[string]func(*http.Server, *tls.Conn, http.Handler){}
		}
		hs.TLSConfig = u.tlsConfig(alpn...)
		go hs.ServeTLS(ln, "", "")
	} else {
		go hs.Serve(ln)
	}
	return nil
}

func (u *UpServer) serveHTTP(w http.ResponseWriter, r *http.Request) {
	var b []byte
	var err error
	switch r.Method {
	case http.MethodGet:
		b, err = base64.RawURLEncoding.DecodeString(r.URL.Query().Get("dns"))
	case http.MethodPost:
		b, err = io.ReadAll(io.LimitReader(r.Body, 65536))
	default:
		err = fmt.Errorf("method")
	}
	if err != nil {
		w.WriteHeader(400)
		return
	}
	qc := qctx{host: r.Host, path: r.URL.Path}
	if r.TLS != nil {
		qc.sni = r.TLS.ServerName
	}
	done := make(chan struct{})
	var once sync.Once
	finish := func() { once.Do(func() { close(done) }) }
	cid := 0
	// the response writer must not be touched once the handler has returned
	// (the client went away); hmu/gone guard the late replies.
	var hmu sync.Mutex
	gone := false
	defer func() { hmu.Lock(); gone = true; hmu.Unlock() }()
	guarded := func(f func()) {
		hmu.Lock()
		defer hmu.Unlock()
		if !gone {
			f()
		}
	}
	hij := func() net.Conn {
		if h, ok := w.(http.Hijacker); ok {
			c, _, err := h.Hijack()
			if err == nil {
				return c
			}
		}
		return nil
	}
	ctl := connCtl{
		fin: func() {
			guarded(func() {
				if c := hij(); c != nil {
					c.Close()
				}
			})
			finish()
		},
		rst: func() {
			guarded(func() {
				if c := hij(); c != nil {
					if tc, ok := c.(*tls.Conn); ok {
						c = tc.NetConn()
					}
					if sc, ok := c.(*vnet.StreamConn); ok {
						sc.Reset()
					} else {
						c.Close()
					}
				}
			})
			finish()
		},
		raw: func(p []byte) {
			guarded(func() {
				if p == nil {
					w.WriteHeader(500)
					return
				}
				w.Header().Set("Content-Type", "application/dns-message")
				w.Write(p)
			})
			finish()
		},
	}
	proto := "http"
	if r.TLS != nil {
		proto = "https"
	}
	if r.ProtoMajor == 2 {
		proto += "2"
	}
	handled := u.handle(b, proto, cid, qc, func(p []byte) {
		guarded(func() {
			w.Header().Set("Content-Type", "application/dns-message")
			w.Write(p)
		})
		finish()
	}, ctl)
	if !handled {
		w.WriteHeader(400)
		return
	}
	select {
	case <-done:
	case <-r.Context().Done():
	}
}

// ecsString renders the ECS option of a query, "" when absent.
func ecsString(opts []refdns.RR) string {
	for _, o := range opts {
		os, err := refdns.ParseOptions(o.Data)
		if err != nil {
			continue
		}
		for _, e := range os {
			if e.Code == 8 && len(e.Data) >= 4 {
				return fmt.Sprintf("%d/%d/%d/%x", binary.BigEndian.Uint16(e.Data), e.Data[2], e.Data[3], e.Data[4:])
			}
		}
	}
	return ""
}

// ECSPrefix parses the string form back into a prefix.
func ECSPrefix(s string) (netip.Prefix, bool) {
	p := strings.Split(s, "/")
	if len(p) != 4 {
		return netip.Prefix{}, false
	}
	fam, _ := strconv.Atoi(p[0])
	bits, _ := strconv.Atoi(p[1])
	var raw []byte
	fmt.Sscanf(p[3], "%x", &raw)
	switch fam {
	case 1:
		var a [4]byte
		copy(a[:], raw)
		return netip.PrefixFrom(netip.AddrFrom4(a), bits), true
	case 2:
		var a [16]byte
		copy(a[:], raw)
		return netip.PrefixFrom(netip.AddrFrom16(a), bits), true
	}
	return netip.Prefix{}, false
}

func TokenOf(n refdns.Name) string {
	ls := n.Labels()
	if len(ls) == 0 {
		return ""
	}
	l := strings.ToLower(string(ls[0]))
	if len(l) >= 2 && l[0] == 't' {
		for _, c := range l[1:] {
			if !(c >= '0' && c <= '9' || c >= 'a' && c <= 'z') {
				return ""
			}
		}
		return l
	}
	return ""
}

// KeyOf is the cache-key-like identity of a question.
func KeyOf(n refdns.Name, class, typ uint16) string {
	return fmt.Sprintf("%x/%d/%d", []byte(n.Lower()), class, typ)
}

// handle processes one query.  It returns false when the bytes do not decode.
func (u *UpServer) handle(b []byte, proto string, conn int, qc qctx, reply func([]byte), ctl connCtl) bool {
	s := u.S
	m, err := refdns.Parse(b)
	q := UpQuery{At: s.Now(), Up: u.Spec.Tag, Proto: proto, Conn: conn, Raw: b, SNI: qc.sni, Host: qc.host, Path: qc.path}
	if n := poisonRun(b); n >= 8 {
		s.Fail("C20", "released-memory-on-the-wire", "upstream %s (%s, conn %d) received %d bytes from the proxy of which %d consecutive ones are the release/allocation poison pattern: a buffer was used after it had been released: %x", u.Spec.Tag, proto, conn, len(b), n, b[:min(len(b), 48)])
	}
	if PoisonObject(b) {
		s.Fail("C20", "released-object-on-the-wire", "upstream %s (%s, conn %d) received a query built from a released pooled object (poison values): %x", u.Spec.Tag, proto, conn, b[:min(len(b), 64)])
	}
	if err != nil || len(m.Q) == 0 {
		u.mu.Lock()
		u.Queries = append(u.Queries, q)
		u.mu.Unlock()
		s.Logf("up_garbage", "%s %s conn=%d n=%d", u.Spec.Tag, proto, conn, len(b))
		return false
	}
	q.Decoded = true
	q.WireID, q.Bits, q.NQ = m.ID, m.Bits, len(m.Q)
	q.Name, q.Type, q.Class = m.Q[0].Name, m.Q[0].Type, m.Q[0].Class
	q.OPTs = m.OPTs()
	q.NAr = len(m.Ar) + len(m.An) + len(m.Ns)
	q.ECS = ecsString(q.OPTs)
	q.Token = TokenOf(q.Name)
	u.mu.Lock()
	q.Arrival = u.arrivals[q.Token]
	u.arrivals[q.Token]++
	if uc := u.conns[conn]; uc != nil && proto != "udp" {
		q.OutstandingBefore = uc.outstanding
		uc.outstanding++
		uc.pending = append(uc.pending, m.ID)
	}
	u.Queries = append(u.Queries, q)
	spec := u.Tokens[q.Token]
	u.mu.Unlock()
	s.Logf("up_query", "%s %s conn=%d id=%d tok=%s arr=%d", u.Spec.Tag, proto, conn, q.WireID, q.Token, q.Arrival)

	ans := &u.DefaultAns
	act := plan.UpAction{Kind: "reply", DelayUs: 200}
	if spec != nil {
		ans = spec.SpecFor(q.Arrival)
		if len(spec.Acts) > 0 {
			i := q.Arrival
			if i >= len(spec.Acts) {
				i = len(spec.Acts) - 1
			}
			act = spec.Acts[i]
		}
	}
	done := func() {
		u.mu.Lock()
		if uc := u.conns[conn]; uc != nil && proto != "udp" && uc.outstanding > 0 {
			uc.outstanding--
			for i, id := range uc.pending {
				if id == m.ID {
					uc.pending = append(uc.pending[:i], uc.pending[i+1:]...)
					break
				}
			}
		}
		u.mu.Unlock()
	}
	mkReply := func() ([]byte, int, string) {
		key := KeyOf(q.Name, q.Class, q.Type)
		u.mu.Lock()
		u.serials[key]++
		serial := u.serials[key]
		u.mu.Unlock()
		r := Generate(u.Seed, u.Spec.Tag, q.Token, q.Name, q.Class, q.Type, ans, serial, q.ECS, int64(s.Now()))
		r.ID = q.WireID
		if m.Bits&refdns.BitRD == 0 {
			r.Bits &^= refdns.BitRD
		}
		if act.Hdr != 0 {
			// a header no well-behaved server sends; the proxy owns these
			// fields of what it relays (C03)
			r.Bits = r.Bits&^(0xF<<11) | uint16(act.Hdr&15)<<11
			if act.Hdr&16 != 0 {
				r.Bits &^= refdns.BitRA
			}
			if act.Hdr&32 != 0 {
				r.Bits ^= refdns.BitRD
			}
			if act.Hdr&64 != 0 {
				r.Bits &^= refdns.BitQR
			}
			s.Fault("up_reply_odd_header")
		}
		return refdns.Pack(r, PackOptsFor(ans.Compress)), serial, key
	}
	sentID := q.WireID
	logReply := func(kind string, serial int, key string, n int) {
		u.mu.Lock()
		u.Replies = append(u.Replies, UpReply{At: s.Now(), Up: u.Spec.Tag, Conn: conn, WireID: q.WireID, Token: q.Token, Serial: serial, Kind: kind, Key: key, Bytes: n, Arrival: q.Arrival, QueryAt: q.At, ECS: q.ECS, SentID: sentID})
		u.mu.Unlock()
		s.Logf("up_reply", "%s conn=%d id=%d tok=%s kind=%s ser=%d", u.Spec.Tag, conn, q.WireID, q.Token, kind, serial)
	}
	go func() {
		if act.DelayUs > 0 {
			time.Sleep(time.Duration(act.DelayUs) * time.Microsecond)
		}
		u.mu.Lock()
		down := u.down
		if uc := u.conns[conn]; uc != nil && proto != "udp" {
			if uc.wedged {
				down = true
			} else if act.Kind == "half_frame" {
				uc.wedged = true
			}
		}
		u.mu.Unlock()
		if down {
			return
		}
		switch act.Kind {
		case "reply", "":
			b, ser, key := mkReply()
			if u.ReplayOnReuse {
				k := [2]int{conn, int(q.WireID)}
				u.mu.Lock()
				if u.sentByID == nil {
					u.sentByID = map[[2]int][]byte{}
				}
				old := u.sentByID[k]
				u.sentByID[k] = b
				u.mu.Unlock()
				if old != nil {
					s.Fault("up_replay_on_id_reuse")
					s.Logf("up_replay", "%s conn=%d id=%d", u.Spec.Tag, conn, q.WireID)
					reply(old)
				}
			}
			logReply("reply", ser, key, len(b))
			reply(b)
			done()
		case "reply_twice":
			b, ser, key := mkReply()
			logReply("reply", ser, key, len(b))
			reply(b)
			done()
			time.Sleep(time.Duration(1+act.Arg) * time.Millisecond)
			logReply("dup", ser, key, len(b))
			s.Fault("up_reply_dup")
			reply(b)
		case "reply_many":
			// the same reply several times back to back (a duplicating path, a
			// buggy pipelining server): act.Arg copies, at least 3
			b, ser, key := mkReply()
			logReply("reply", ser, key, len(b))
			reply(b)
			done()
			// only where replies carry an id that the transport matches (UDP,
			// pipelined streams): on a one-query-at-a-time connection a second
			// copy would be taken for the next query's reply, and "one reply
			// per query" is the stated precondition there (C06)
			multi := proto == "udp" || (strings.Contains(u.Spec.Kind, "pipeline") && (proto == "tcp" || proto == "tls"))
			for i := 1; multi && i < max(3, act.Arg); i++ {
				logReply("dup", ser, key, len(b))
				s.Fault("up_reply_dup")
				reply(b)
			}
		case "truncate_udp":
			// TC over UDP, full answer over anything else
			b, ser, key := mkReply()
			if proto == "udp" {
				r, _ := refdns.Parse(b)
				r.Bits |= refdns.BitTC
				if act.Arg%2 == 1 && len(r.An) > 1 {
					// a partial RRset, as many servers send it
					r.An, r.Ns, r.Ar = r.An[:(len(r.An)+1)/2], nil, nil
				} else {
					r.An, r.Ns, r.Ar = nil, nil, nil
				}
				if act.Arg == 3 {
					// the bare header, as boxes do that push clients to TCP
					// without echoing the question: 12 octets, all counts 0
					r.Q, r.An = nil, nil
				}
				b = refdns.Pack(r, refdns.PackOpts{})
				if len(b) > 1232 {
					// (half of a many-KiB answer is no datagram a server would send)
					r.An = nil
					b = refdns.Pack(r, refdns.PackOpts{})
				}
				logReply("tc", ser, key, len(b))
				s.Fault("up_tc")
			} else {
				logReply("reply", ser, key, len(b))
			}
			reply(b)
			done()
		case "silent":
			s.Fault("up_silent")
			logReply("silent", 0, "", 0)
		case "garbage":
			s.Fault("up_garbage_reply")
			g := act.Raw
			if act.Arg >= 2 {
				// the answer this server would give, cut short somewhere after the
				// header: the counts promise more than follows, so no decoder
				// accepts it, but record headers, names and RDATA are begun.
				// (generated with serial 0: it is not a reply any oracle counts)
				r := Generate(u.Seed, u.Spec.Tag, q.Token, q.Name, q.Class, q.Type, ans, 0, q.ECS, int64(s.Now()))
				r.ID = q.WireID
				full := refdns.Pack(r, PackOptsFor(ans.Compress))
				if len(full) > 13 {
					g = full[:12+(act.Arg*7919)%(len(full)-12)]
				}
			}
			if len(g) >= 2 && act.Arg == 1 { // keep the wire id so that it is routed to the waiter
				g = append([]byte(nil), g...)
				binary.BigEndian.PutUint16(g, q.WireID)
			}
			logReply("garbage", 0, "", len(g))
			reply(g)
			done()
		case "wrong_id":
			b, ser, key := mkReply()
			sentID = q.WireID + uint16(1+act.Arg)
			binary.BigEndian.PutUint16(b, sentID)
			logReply("wrong_id", ser, key, len(b))
			s.Fault("up_wrong_id")
			reply(b)
		case "fin":
			s.Fault("up_fin")
			logReply("fin", 0, "", 0)
			if ctl.fin != nil {
				ctl.fin()
			}
		case "rst":
			s.Fault("up_rst")
			logReply("rst", 0, "", 0)
			if ctl.rst != nil {
				ctl.rst()
			}
		case "half_frame":
			s.Fault("up_half_frame")
			b, ser, key := mkReply()
			logReply("half", ser, key, len(b))
			if ctl.raw != nil && proto != "udp" && !strings.HasPrefix(proto, "http") {
				f := make([]byte, 2+len(b))
				binary.BigEndian.PutUint16(f, uint16(len(b)))
				copy(f[2:], b)
				cut := 1 + act.Arg%max(1, len(f)-1)
				ctl.raw(f[:cut])
			}
		case "stall_frame":
			// One reply, delivered in two pieces with a pause in between that is
			// longer than the proxy's idle time-out.  The second piece begins
			// with bytes that, read on their own, are a complete framed message
			// under the wire id of another query waiting on this connection (they
			// sit inside a TXT record of the reply): a reader that carries on
			// after its time-out instead of giving the connection up takes them
			// for that query's answer.
			b, ser, key := mkReply()
			var victim uint16
			found := false
			u.mu.Lock()
			if uc := u.conns[conn]; uc != nil {
				for _, id := range uc.pending {
					if id != q.WireID {
						victim, found = id, true
					}
				}
			}
			u.mu.Unlock()
			if ctl.split == nil || !found || len(b)+2 > 255 {
				logReply("reply", ser, key, len(b))
				reply(b)
				done()
				break
			}
			fake := append([]byte(nil), b...)
			binary.BigEndian.PutUint16(fake, victim)
			inner := binary.BigEndian.AppendUint16(nil, uint16(len(fake)))
			inner = append(inner, fake...)
			rm, err := refdns.Parse(b)
			if err != nil {
				logReply("reply", ser, key, len(b))
				reply(b)
				done()
				break
			}
			rm.Ar = append(rm.Ar, refdns.RR{Name: q.Name, Type: refdns.TypeTXT, Class: q.Class, TTL: 1, Data: append([]byte{byte(len(inner))}, inner...)})
			full := refdns.Pack(rm, PackOptsFor(ans.Compress))
			f := binary.BigEndian.AppendUint16(nil, uint16(len(full)))
			f = append(f, full...)
			off := bytes.LastIndex(f, inner)
			s.Fault("up_stall_inside_frame")
			logReply("reply", ser, key, len(full))
			ctl.split(f[:off], time.Duration(act.Arg)*time.Millisecond, f[off:])
			done()
		case "http_500":
			s.Fault("up_http_500")
			logReply("http500", 0, "", 0)
			if ctl.raw != nil {
				ctl.raw(nil)
			}
		default:
			panic("upserver: unknown action " + act.Kind)
		}
	}()
	return true
}

// QueriesCopy returns a snapshot of the query log.
func (u *UpServer) QueriesCopy() []UpQuery {
	u.mu.Lock()
	defer u.mu.Unlock()
	return append([]UpQuery(nil), u.Queries...)
}

func (u *UpServer) RepliesCopy() []UpReply {
	u.mu.Lock()
	defer u.mu.Unlock()
	return append([]UpReply(nil), u.Replies...)
}

// PoisonRun is the exported form of poisonRun.
func PoisonRun(b []byte) int { return poisonRun(b) }

var poisonName = []byte("\x06poison\x05after\x07release")

// PoisonObject reports whether b contains the name that the pool facade
// writes into released pooled objects.
func PoisonObject(b []byte) bool { return bytes.Contains(b, poisonName) }

// poisonRun is the longest run of 0xDB (released) bytes in b.
func poisonRun(b []byte) int {
	best, cur := 0, 0
	for _, c := range b {
		if c == 0xDB {
			cur++
			if cur > best {
				best = cur
			}
		} else {
			cur = 0
		}
	}
	return best
}
