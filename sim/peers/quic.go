package peers

import (
	"context"
	"crypto/tls"
	"encoding/binary"
	"fmt"
	"io"
	"net"
	"net/http"
	"net/netip"
	"time"

	"github.com/quic-go/quic-go"
	"github.com/quic-go/quic-go/http3"

	"github.com/IrineSistiana/mosproxy/verifsim/plan"
)

func quicConf() *quic.Config {
	return &quic.Config{MaxIdleTimeout: 30 * time.Second, HandshakeIdleTimeout: 5 * time.Second}
}

// startQUIC serves DoQ (kind quic) or DoH3 (kind h3) with real quic-go over a
// simulated packet socket.
func (u *UpServer) startQUIC() error {
	uc, err := u.W.PeerListenUDP(u.addr())
	if err != nil {
		return err
	}
	uc.Label = "S" + u.Spec.Tag
	tr := &quic.Transport{Conn: uc}
	u.mu.Lock()
	u.extra = append(u.extra, tr, uc)
	u.mu.Unlock()
	if u.Spec.Kind == "h3" {
		srv := &http3.Server{Handler: http.HandlerFunc(u.serveHTTP), TLSConfig: http3.ConfigureTLSConfig(u.tlsConfig()), QuicConfig: quicConf()}
		ln, err := tr.ListenEarly(srv.TLSConfig, srv.QuicConfig)
		if err != nil {
			return err
		}
		u.mu.Lock()
		u.extra = append(u.extra, srv, ln)
		u.mu.Unlock()
		go srv.ServeListener(ln)
		return nil
	}
	qc := quicConf()
	if u.Spec.QuicMaxStreams > 0 {
		qc.MaxIncomingStreams = int64(u.Spec.QuicMaxStreams)
	}
	ln, err := tr.Listen(u.tlsConfig("doq"), qc)
	if err != nil {
		return err
	}
	u.mu.Lock()
	u.extra = append(u.extra, ln)
	u.mu.Unlock()
	go func() {
		for {
			c, err := ln.Accept(context.Background())
			if err != nil {
				return
			}
			u.mu.Lock()
			u.connSeq++
			cid := u.connSeq
			if u.qconns == nil {
				u.qconns = map[int]quic.Connection{}
			}
			u.qconns[cid] = c
			u.mu.Unlock()
			go func() {
				qc := qctx{sni: c.ConnectionState().TLS.ServerName}
				for {
					st, err := c.AcceptStream(context.Background())
					if err != nil {
						u.mu.Lock()
						delete(u.qconns, cid)
						u.mu.Unlock()
						return
					}
					go func() {
						var h [2]byte
						st.SetReadDeadline(time.Now().Add(5 * time.Second))
						if _, err := io.ReadFull(st, h[:]); err != nil {
							st.CancelRead(0)
							st.Close()
							return
						}
						b := make([]byte, binary.BigEndian.Uint16(h[:]))
						if _, err := io.ReadFull(st, b); err != nil {
							st.CancelRead(0)
							st.Close()
							return
						}
						ctl := connCtl{
							fin: func() { st.Close() },
							rst: func() { st.CancelWrite(1); st.CancelRead(1) },
							raw: func(p []byte) { st.Write(p); st.Close() },
						}
						u.handle(b, "quic", cid, qc, func(r []byte) {
							f := make([]byte, 2+len(r))
							binary.BigEndian.PutUint16(f, uint16(len(r)))
							copy(f[2:], r)
							st.Write(f)
							st.Close()
						}, ctl)
					}()
				}
			}()
		}
	}()
	return nil
}

func (c *Clients) runQUIC(cc *plan.ClientConn, cr *ConnRecord, srv plan.ServerSpec, ops []*OpRecord) {
	src := netip.MustParseAddr(cc.Src)
	_, target := targetFor(srv.Listen, src)
	ua, err := net.ResolveUDPAddr("udp", target)
	if err != nil {
		cr.DialErr = err.Error()
		return
	}
	c.sleepUntil(ops[0].Op.AtUs - 5000)
	pc, err := c.W.PeerListenUDP(net.JoinHostPort(src.String(), "0"))
	if err != nil {
		cr.DialErr = err.Error()
		return
	}
	pc.Label = fmt.Sprintf("C%d", cc.Idx)
	tr := &quic.Transport{Conn: pc}
	defer pc.Close()
	defer tr.Close()
	ctx, cancel := context.WithTimeout(context.Background(), 5*time.Second)
	tcfg := c.clientTLS(cc, ProxyServerName, "doq")
	conn, err := tr.Dial(ctx, ua, tcfg, quicConf())
	cancel()
	if err != nil {
		cr.DialErr = "quic: " + err.Error()
		return
	}
	cr.OpenedAt = c.S.Now()
	done := make(chan struct{})
	n := 0
	for _, o := range ops {
		c.sleepUntil(o.Op.AtUs)
		o.Query = BuildQuery(o.Op)
		o.SentAt = c.S.Now()
		o.Sent = true
		n++
		go func() {
			defer func() { done <- struct{}{} }()
			st, err := conn.OpenStreamSync(context.Background())
			if err != nil {
				c.mu.Lock()
				o.Err = err.Error()
				c.mu.Unlock()
				return
			}
			f := make([]byte, 0, 2+len(o.Query))
			if o.Op.Raw != nil && o.Op.Method == "rawframe" {
				f = append(f, o.Query...)
			} else {
				f = binary.BigEndian.AppendUint16(f, uint16(len(o.Query)))
				f = append(f, o.Query...)
			}
			c.S.Logf("cl_send", "C%d op=%d quic n=%d", cc.Idx, o.Op.Idx, len(f))
			st.Write(f)
			st.Close()
			st.SetReadDeadline(time.Now().Add(12 * time.Second))
			all, rerr := io.ReadAll(io.LimitReader(st, 1<<17))
			if rerr != nil && len(all) == 0 {
				c.mu.Lock()
				o.Err = rerr.Error()
				c.mu.Unlock()
			}
			// every complete frame on the stream is a response
			for len(all) >= 2 {
				l := int(binary.BigEndian.Uint16(all))
				if len(all) < 2+l {
					break
				}
				c.mu.Lock()
				o.Resps = append(o.Resps, Resp{At: c.S.Now(), B: append([]byte(nil), all[2:2+l]...)})
				c.mu.Unlock()
				c.S.Logf("cl_resp", "C%d op=%d n=%d", cc.Idx, o.Op.Idx, l)
				all = all[2+l:]
			}
			if len(all) > 0 {
				c.mu.Lock()
				cr.FrameErr = fmt.Sprintf("%d trailing bytes on a DoQ stream", len(all))
				c.mu.Unlock()
			}
		}()
	}
	for i := 0; i < n; i++ {
		<-done
	}
	time.Sleep(time.Duration(cc.LingerUs) * time.Microsecond / 8)
	c.mu.Lock()
	cr.ClosedAt = c.S.Now()
	c.mu.Unlock()
	conn.CloseWithError(0, "")
}

var _ = tls.VersionTLS13
