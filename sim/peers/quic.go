package peers

import "errors"

// startQUIC is filled in by quic_real.go once the QUIC peers exist.
func (u *UpServer) startQUIC() error { return errors.New("upserver: quic not built yet") }
