package peers

import (
	"crypto/ed25519"
	"crypto/tls"
	"crypto/x509"
	"crypto/x509/pkix"
	"encoding/pem"
	"math/big"
	"net"
	"time"
)

// PKI is the run's deterministic TLS material.  All keys derive from fixed
// seeds, validity is fixed around the bubble's epoch (2000-01-01).
type PKI struct {
	CAPEM, OtherCAPEM []byte
	ca, otherCA       *x509.Certificate
	caKey, otherKey   ed25519.PrivateKey
}

type zeroReader struct{}

func (zeroReader) Read(p []byte) (int, error) {
	for i := range p {
		p[i] = 0x42
	}
	return len(p), nil
}

func seedKey(tag string) ed25519.PrivateKey {
	var s [32]byte
	copy(s[:], tag)
	return ed25519.NewKeyFromSeed(s[:])
}

var epoch = time.Date(2000, 1, 1, 0, 0, 0, 0, time.UTC)

func mkCA(cn string, key ed25519.PrivateKey) (*x509.Certificate, []byte) {
	tpl := &x509.Certificate{
		SerialNumber:          big.NewInt(1),
		Subject:               pkix.Name{CommonName: cn},
		NotBefore:             epoch.Add(-24 * time.Hour * 365),
		NotAfter:              epoch.Add(24 * time.Hour * 3650),
		IsCA:                  true,
		KeyUsage:              x509.KeyUsageCertSign | x509.KeyUsageDigitalSignature,
		BasicConstraintsValid: true,
	}
	der, err := x509.CreateCertificate(zeroReader{}, tpl, tpl, key.Public(), key)
	if err != nil {
		panic(err)
	}
	c, _ := x509.ParseCertificate(der)
	return c, pem.EncodeToMemory(&pem.Block{Type: "CERTIFICATE", Bytes: der})
}

func NewPKI() *PKI {
	p := &PKI{caKey: seedKey("ca-main"), otherKey: seedKey("ca-other")}
	p.ca, p.CAPEM = mkCA("verifsim CA", p.caKey)
	p.otherCA, p.OtherCAPEM = mkCA("verifsim other CA", p.otherKey)
	return p
}

// Leaf issues a certificate.  profile: good | wrongname | otherca | expired |
// notyet | selfsigned.  names are DNS names or IP literals.
func (p *PKI) Leaf(profile string, client bool, names ...string) (tls.Certificate, []byte, []byte) {
	key := seedKey("leaf-" + profile + names[0])
	tpl := &x509.Certificate{
		SerialNumber: big.NewInt(int64(len(profile))*1000 + int64(len(names[0])) + 7),
		Subject:      pkix.Name{CommonName: names[0]},
		NotBefore:    epoch.Add(-24 * time.Hour * 30),
		NotAfter:     epoch.Add(24 * time.Hour * 365),
		KeyUsage:     x509.KeyUsageDigitalSignature,
		ExtKeyUsage:  []x509.ExtKeyUsage{x509.ExtKeyUsageServerAuth, x509.ExtKeyUsageClientAuth},
	}
	if profile == "wrongname" {
		names = []string{"wrong.invalid"}
	}
	for _, n := range names {
		if ip := net.ParseIP(n); ip != nil {
			tpl.IPAddresses = append(tpl.IPAddresses, ip)
		} else {
			tpl.DNSNames = append(tpl.DNSNames, n)
		}
	}
	parent, pkey := p.ca, p.caKey
	switch profile {
	case "otherca":
		parent, pkey = p.otherCA, p.otherKey
	case "expired":
		tpl.NotBefore, tpl.NotAfter = epoch.Add(-24*time.Hour*60), epoch.Add(-24*time.Hour)
	case "notyet":
		tpl.NotBefore, tpl.NotAfter = epoch.Add(24*time.Hour*100), epoch.Add(24*time.Hour*465)
	case "selfsigned":
		parent, pkey = tpl, key
	}
	der, err := x509.CreateCertificate(zeroReader{}, tpl, parent, key.Public(), pkey)
	if err != nil {
		panic(err)
	}
	kb, _ := x509.MarshalPKCS8PrivateKey(key)
	certPEM := pem.EncodeToMemory(&pem.Block{Type: "CERTIFICATE", Bytes: der})
	keyPEM := pem.EncodeToMemory(&pem.Block{Type: "PRIVATE KEY", Bytes: kb})
	leaf, _ := x509.ParseCertificate(der)
	return tls.Certificate{Certificate: [][]byte{der}, PrivateKey: key, Leaf: leaf}, certPEM, keyPEM
}

func (p *PKI) Pool() *x509.CertPool {
	cp := x509.NewCertPool()
	cp.AddCert(p.ca)
	return cp
}
