// Package peers holds the simulated parties: fake upstream servers that speak
// the real protocols, clients for every listener kind, and the deterministic
// answer function that lets oracles regenerate the exact message that should
// sit behind any client-visible response.
package peers

import (
	"encoding/binary"
	"fmt"
	"strconv"
	"strings"

	"github.com/IrineSistiana/mosproxy/verifsim/plan"
	"github.com/IrineSistiana/mosproxy/verifsim/refdns"
)

func mix(x uint64) uint64 {
	x += 0x9e3779b97f4a7c15
	x = (x ^ (x >> 30)) * 0xbf58476d1ce4e5b9
	x = (x ^ (x >> 27)) * 0x94d049bb133111eb
	return x ^ (x >> 31)
}

type hrand struct{ s uint64 }

func newHrand(seed uint64, parts ...string) *hrand {
	h := seed
	for _, p := range parts {
		for i := 0; i < len(p); i++ {
			h = (h ^ uint64(p[i])) * 1099511628211
		}
		h = mix(h)
	}
	return &hrand{h}
}
func (r *hrand) u64() uint64 { r.s = mix(r.s); return r.s }
func (r *hrand) intn(n int) int {
	if n <= 1 {
		return 0
	}
	return int(r.u64() % uint64(n))
}
func (r *hrand) bytes(n int) []byte {
	b := make([]byte, n)
	for i := range b {
		b[i] = byte(r.u64() >> 17)
	}
	return b
}

// Meta is what the metadata record of a generated answer carries.
type Meta struct {
	Up     string
	Serial int
	Token  string
	ECS    string
	GenNs  int64
	Class  uint16
	Type   uint16
}

func (m Meta) encode() []byte {
	s := fmt.Sprintf("m1|%s|%d|%s|%s|%d|%d|%d", m.Up, m.Serial, m.Token, m.ECS, m.GenNs, m.Class, m.Type)
	if len(s) > 255 {
		s = s[:255]
	}
	return append([]byte{byte(len(s))}, s...)
}

// DecodeMeta finds the metadata TXT record in a message.
func DecodeMeta(m *refdns.Msg) (Meta, bool) {
	for _, sec := range [][]refdns.RR{m.An, m.Ns, m.Ar} {
		for _, rr := range sec {
			if rr.Type != refdns.TypeTXT || len(rr.Data) < 4 || int(rr.Data[0]) != len(rr.Data)-1 {
				continue
			}
			s := string(rr.Data[1:])
			if !strings.HasPrefix(s, "m1|") {
				continue
			}
			p := strings.Split(s, "|")
			if len(p) != 8 {
				continue
			}
			ser, e1 := strconv.Atoi(p[2])
			g, e2 := strconv.ParseInt(p[5], 10, 64)
			cl, e3 := strconv.Atoi(p[6])
			ty, e4 := strconv.Atoi(p[7])
			if e1 != nil || e2 != nil || e3 != nil || e4 != nil {
				continue
			}
			return Meta{Up: p[1], Serial: ser, Token: p[3], ECS: p[4], GenNs: g, Class: uint16(cl), Type: uint16(ty)}, true
		}
	}
	return Meta{}, false
}

var binaryLabels = [][]byte{
	{'a', 'b', 1, 'c'}, {'a', 'b'}, {'c'}, {0}, {'x', 0}, {'x'}, {3, 'w', 'w', 'w'}, {'w', 'w', 'w'},
	{'.'}, {'a', '.', 'b'}, {'\\'}, {0xff, 0xfe}, {'E', 'x'}, {'e', 'x'}, {0xC0, 0x0C}, {'-'}, {7},
	[]byte("a\x00"), []byte("a"), []byte("zz\x02zz"), []byte("zz"),
}

// namePool builds names related to the query name so that suffix sharing,
// binary labels and near-collisions occur.
func namePool(r *hrand, q refdns.Name, shape string, maxNames, nested bool) []refdns.Name {
	ls := q.Labels()
	pool := []refdns.Name{q}
	suffix := func(k int) [][]byte {
		if k > len(ls) {
			k = len(ls)
		}
		return ls[len(ls)-k:]
	}
	add := func(pre [][]byte, suf [][]byte) {
		n := refdns.NameFromLabels(append(append([][]byte{}, pre...), suf...)...)
		if n.Valid() {
			pool = append(pool, n)
		}
	}
	add([][]byte{[]byte("ns1")}, suffix(2))
	add([][]byte{[]byte("mail")}, suffix(3))
	add(nil, suffix(1))
	add([][]byte{[]byte("a"), []byte("b")}, suffix(2))
	if shape == "binary" || shape == "mixed" {
		for i := 0; i < 6; i++ {
			a := binaryLabels[r.intn(len(binaryLabels))]
			b := binaryLabels[r.intn(len(binaryLabels))]
			switch r.intn(3) {
			case 0:
				add([][]byte{a}, suffix(2))
			case 1:
				add([][]byte{a, b}, suffix(1+r.intn(3)))
			default:
				add([][]byte{append(append([]byte{}, a...), b...)}, suffix(2))
			}
		}
		// the classic collision pair
		add([][]byte{{'a', 'b', 1, 'c'}}, suffix(2))
		add([][]byte{{'a', 'b'}, {'c'}}, suffix(2))
	}
	if shape == "suffix" || shape == "mixed" {
		// long names close to 255 octets
		long := make([][]byte, 0, 5)
		for i := 0; i < 3; i++ {
			l := make([]byte, 60+r.intn(4))
			for j := range l {
				l[j] = 'a' + byte(r.intn(26))
			}
			long = append(long, l)
		}
		add(long, suffix(2))
		add(long[1:], suffix(2))
	}
	if nested {
		cur := append([][]byte{}, suffix(2)...)
		for i, n := 0, 12+r.intn(5); i < n; i++ {
			cur = append([][]byte{[]byte(fmt.Sprintf("n%d", i))}, cur...)
			add(cur, nil)
		}
	}
	if maxNames {
		// the longest names there are: 255 octets on the wire, and one less
		for _, target := range []int{255, 254} {
			suf := suffix(2)
			rem := target - 1
			for _, l := range suf {
				rem -= len(l) + 1
			}
			var pre [][]byte
			for rem >= 2 {
				n := min(63, rem-1)
				if rem-(n+1) == 1 {
					n--
				}
				l := make([]byte, n)
				for j := range l {
					l[j] = 'a' + byte(r.intn(26))
				}
				pre = append(pre, l)
				rem -= n + 1
			}
			add(pre, suf)
		}
	}
	return pool
}

// Generate builds the reply the upstream `up` gives for (qname,class,type)
// under spec, for the given serial.  qname is the name as the upstream
// received it.  The message has ID 0 and echoes the question.
func Generate(seed uint64, up string, token string, qname refdns.Name, qclass, qtype uint16, spec *plan.AnswerSpec, serial int, ecs string, genNs int64) *refdns.Msg {
	r := newHrand(seed, "gen", up, token, strconv.Itoa(int(qclass)), strconv.Itoa(int(qtype)))
	m := &refdns.Msg{}
	m.Bits = refdns.BitQR | refdns.BitRA | refdns.BitRD | uint16(spec.Rcode&0xF) | spec.Bits&(refdns.BitAA|refdns.BitTC|refdns.BitAD|refdns.BitCD)
	m.Q = []refdns.Question{{Name: qname, Type: qtype, Class: qclass}}
	pool := namePool(r, qname, spec.Shape, spec.MaxNames, spec.Nested)
	ttl := func(i int) uint32 {
		if len(spec.TTLs) == 0 {
			return 300
		}
		return spec.TTLs[i%len(spec.TTLs)]
	}
	// serial-dependent payload so that two generations of one key differ.
	sr := newHrand(seed, "ser", up, token, strconv.Itoa(serial))
	types := []uint16{refdns.TypeA, refdns.TypeAAAA, refdns.TypeCNAME, refdns.TypeNS, refdns.TypePTR, refdns.TypeMX, refdns.TypeSOA, refdns.TypeSRV, refdns.TypeTXT, 65280, 99, 46}
	switch spec.Shape {
	case "plain":
		types = []uint16{refdns.TypeA, refdns.TypeAAAA, refdns.TypeCNAME, refdns.TypeTXT}
	case "srv":
		types = []uint16{refdns.TypeSRV, refdns.TypeSRV, refdns.TypeMX, refdns.TypeNS}
	case "unknown":
		types = []uint16{65280, 99, 46, 257, 64, refdns.TypeTXT}
	}
	mk := func(sec, i int) refdns.RR {
		owner := qname
		if sec > 0 || r.intn(4) == 0 {
			owner = pool[r.intn(len(pool))]
		}
		t := types[r.intn(len(types))]
		if sec == 0 && qtype != 255 && r.intn(3) > 0 {
			switch qtype {
			case refdns.TypeA, refdns.TypeAAAA, refdns.TypeCNAME, refdns.TypeNS, refdns.TypePTR, refdns.TypeMX, refdns.TypeSOA, refdns.TypeSRV, refdns.TypeTXT:
				t = qtype
			}
		}
		rr := refdns.RR{Name: owner, Type: t, Class: qclass, TTL: ttl(sec*7 + i)}
		pn := func() refdns.Name { return pool[r.intn(len(pool))] }
		switch t {
		case refdns.TypeA:
			rr.Data = sr.bytes(4)
		case refdns.TypeAAAA:
			rr.Data = sr.bytes(16)
		case refdns.TypeCNAME, refdns.TypeNS, refdns.TypePTR:
			rr.Data = append([]byte{}, pn()...)
		case refdns.TypeMX:
			rr.Data = append(sr.bytes(2), pn()...)
		case refdns.TypeSRV:
			rr.Data = append(sr.bytes(6), pn()...)
		case refdns.TypeSOA:
			rr.Data = append(append(append([]byte{}, pn()...), pn()...), sr.bytes(20)...)
		case refdns.TypeTXT:
			s := sr.bytes(1 + sr.intn(40))
			rr.Data = append([]byte{byte(len(s))}, s...)
		default:
			n := sr.intn(48)
			if r.intn(5) == 0 {
				n = 0 // empty RDATA
			}
			rr.Data = sr.bytes(n)
			if n >= 2 && r.intn(3) == 0 {
				rr.Data[n-2], rr.Data[n-1] = 0xC0, 0x0C // looks like a pointer, must stay opaque
			}
		}
		return rr
	}
	if spec.Nested {
		// a CNAME chain through names each of which extends the previous one by
		// a label: with every suffix shared, name k is reached through k pointers
		ls := qname.Labels()
		if len(ls) > 2 {
			ls = ls[len(ls)-2:]
		}
		cur := append([][]byte{}, ls...)
		prev := qname
		for i, n := 0, 12+r.intn(5); i < n; i++ {
			cur = append([][]byte{[]byte(fmt.Sprintf("n%d", i))}, cur...)
			nm := refdns.NameFromLabels(cur...)
			if !nm.Valid() {
				break
			}
			m.An = append(m.An, refdns.RR{Name: prev, Type: refdns.TypeCNAME, Class: qclass, TTL: ttl(i), Data: append([]byte{}, nm...)})
			prev = nm
		}
	}
	for i := 0; i < spec.NAn; i++ {
		m.An = append(m.An, mk(0, i))
	}
	for i := 0; i < spec.NNs; i++ {
		m.Ns = append(m.Ns, mk(1, i))
	}
	for i := 0; i < spec.NAr; i++ {
		m.Ar = append(m.Ar, mk(2, i))
	}
	// padding records (large answers)
	if spec.PadTo > 0 && spec.Shape != "tight" {
		i := 0
		for refdns.UncompressedLen(m) < spec.PadTo && i < 4000 {
			n := 200
			if rem := spec.PadTo - refdns.UncompressedLen(m); rem < 260 {
				n = max(1, rem-len(qname)-11)
				if n > 250 {
					n = 250
				}
			}
			s := sr.bytes(n)
			rr := refdns.RR{Name: qname, Type: refdns.TypeTXT, Class: qclass, TTL: ttl(50 + i), Data: append([]byte{byte(n)}, s...)}
			if i%3 == 2 {
				m.Ns = append(m.Ns, rr)
			} else {
				m.An = append(m.An, rr)
			}
			i++
		}
	}
	// "tight" shape: the bulk of the answer is small records of every
	// interpreted type whose owner and RDATA names share nothing with any other
	// name, so compression saves nothing and a size limit falls on a record of
	// any type with no slack.
	if spec.Shape == "tight" && spec.PadTo > 0 {
		uniq := func() refdns.Name {
			a := make([]byte, 1+r.intn(8))
			for j := range a {
				a[j] = 'a' + byte(r.intn(26))
			}
			b := make([]byte, 1+r.intn(5))
			for j := range b {
				b[j] = 'a' + byte(r.intn(26))
			}
			if r.intn(6) == 0 {
				return refdns.NameFromLabels(a)
			}
			return refdns.NameFromLabels(a, b)
		}
		tt := []uint16{refdns.TypeSRV, refdns.TypeMX, refdns.TypeNS, refdns.TypeCNAME, refdns.TypeSOA, refdns.TypeA, refdns.TypeAAAA, refdns.TypeTXT, refdns.TypePTR, 99}
		for i := 0; refdns.UncompressedLen(m) < spec.PadTo && i < 3000; i++ {
			t := tt[r.intn(len(tt))]
			rr := refdns.RR{Name: uniq(), Type: t, Class: qclass, TTL: ttl(60 + i)}
			if r.intn(5) == 0 {
				rr.Name = refdns.Root
			}
			tn := uniq()
			if r.intn(5) == 0 {
				tn = refdns.Root
			}
			switch t {
			case refdns.TypeA:
				rr.Data = sr.bytes(4)
			case refdns.TypeAAAA:
				rr.Data = sr.bytes(16)
			case refdns.TypeCNAME, refdns.TypeNS, refdns.TypePTR:
				rr.Data = append([]byte{}, tn...)
			case refdns.TypeMX:
				rr.Data = append(sr.bytes(2), tn...)
			case refdns.TypeSRV:
				rr.Data = append(sr.bytes(6), tn...)
			case refdns.TypeSOA:
				rr.Data = append(append(append([]byte{}, tn...), uniq()...), sr.bytes(20)...)
			case refdns.TypeTXT:
				x := sr.bytes(1 + sr.intn(6))
				rr.Data = append([]byte{byte(len(x))}, x...)
			default:
				rr.Data = sr.bytes(sr.intn(7))
			}
			switch i % 3 {
			case 0:
				m.An = append(m.An, rr)
			case 1:
				m.Ns = append(m.Ns, rr)
			default:
				m.Ar = append(m.Ar, rr)
			}
		}
	}
	// "late" shape: names whose first occurrence lies beyond offset 16383 (after
	// the padding), where they can no longer be compression targets, repeated.
	if spec.Shape == "late" {
		for i := 0; i < 3; i++ {
			n := refdns.NameFromLabels(append([][]byte{[]byte(fmt.Sprintf("late%d", i%2)), []byte("glue-host")}, qname.Labels()[max(0, len(qname.Labels())-2):]...)...)
			m.Ar = append(m.Ar, refdns.RR{Name: n, Type: refdns.TypeA, Class: qclass, TTL: ttl(70 + i), Data: sr.bytes(4)})
			m.Ar = append(m.Ar, refdns.RR{Name: qname, Type: refdns.TypeNS, Class: qclass, TTL: ttl(80 + i), Data: append([]byte{}, n...)})
		}
	}
	// metadata record
	meta := refdns.RR{Name: qname, Type: refdns.TypeTXT, Class: qclass, TTL: ttl(99), Data: Meta{Up: up, Serial: serial, Token: token, ECS: ecs, GenNs: genNs, Class: qclass, Type: qtype}.encode()}
	ins := func(s []refdns.RR, at int, rr refdns.RR) []refdns.RR {
		if at > len(s) {
			at = len(s)
		}
		s = append(s, refdns.RR{})
		copy(s[at+1:], s[at:])
		s[at] = rr
		return s
	}
	switch {
	case len(m.An) > 0:
		m.An = ins(m.An, r.intn(len(m.An)+1), meta)
	case len(m.Ns) > 0:
		m.Ns = ins(m.Ns, r.intn(len(m.Ns)+1), meta)
	case len(m.Ar) > 0:
		m.Ar = ins(m.Ar, r.intn(len(m.Ar)+1), meta)
	}
	if o := spec.OPT; o != nil {
		var od []byte
		for _, op := range o.Options {
			od = binary.BigEndian.AppendUint16(od, op.Code)
			od = binary.BigEndian.AppendUint16(od, uint16(len(op.Data)))
			od = append(od, op.Data...)
		}
		opt := refdns.RR{Name: refdns.Root, Type: refdns.TypeOPT, Class: o.UDPSize, TTL: o.TTL, Data: od}
		m.Ar = ins(m.Ar, o.Pos, opt)
	}
	// "tight" answers are filled up to their target size on the wire (as this
	// server will lay them out) to within 12 octets, so that targets just below
	// 65535 leave less room than the proxy's own OPT record needs.
	if spec.Shape == "tight" && spec.PadTo > 0 {
		for i := 0; i < 400; i++ {
			d := spec.PadTo - len(refdns.Pack(m, PackOptsFor(spec.Compress)))
			if d < 13 {
				break
			}
			n := min(d-12, 255)
			m.Ar = append(m.Ar, refdns.RR{Name: refdns.Root, Type: refdns.TypeTXT, Class: qclass, TTL: ttl(90 + i), Data: append([]byte{byte(n)}, sr.bytes(n)...)})
		}
	}
	return m
}

// PackOptsFor maps the spec's layout knob to packer options.
func PackOptsFor(c int) refdns.PackOpts {
	switch c {
	case 1:
		return refdns.PackOpts{CompressOwner: true}
	case 2:
		return refdns.PackOpts{CompressOwner: true, CompressRdata: true}
	case 3:
		return refdns.PackOpts{CompressOwner: true, CompressRdata: true, CompressSRV: true}
	}
	return refdns.PackOpts{}
}
