// Package vsignal replaces os/signal in app/router/router.go: the runtime's
// signal goroutine must not touch a channel that belongs to a synctest
// bubble.  Simulated runs are never stopped by a signal.
package vsignal

import "os"

func Notify(c chan<- os.Signal, sig ...os.Signal) {}
func Stop(c chan<- os.Signal)                     {}
