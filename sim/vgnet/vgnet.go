// Package vgnet replaces github.com/panjf2000/gnet/v2 in
// app/router/server_tcp_gnet_linux.go.  The epoll engine cannot run on
// simulated sockets, so this is a STUB of the engine: one goroutine per event
// loop that calls the real handler's OnOpen/OnTraffic/OnClose with a
// connection object whose buffer semantics are ported from gnet v2.3.6
// (connection_unix.go / eventloop_unix.go): a shared per-loop read buffer
// that is reused (here: poisoned) after OnTraffic returns, leftover bytes
// moved to a per-connection inbound buffer, Next(n<=0) meaning "everything",
// a short read returning io.ErrShortBuffer without consuming, AsyncWrite
// executed on the loop followed by its callback.
package vgnet

import (
	"context"
	"errors"
	"io"
	"net"
	"os"
	"strings"
	"sync"
	"syscall"
	"time"

	gnet "github.com/panjf2000/gnet/v2"

	"github.com/IrineSistiana/mosproxy/verifsim/vnet"
)

type (
	Conn          = gnet.Conn
	Action        = gnet.Action
	AsyncCallback = gnet.AsyncCallback
	Option        = func(*options)
)

const (
	None     = gnet.None
	Close    = gnet.Close
	Shutdown = gnet.Shutdown
)

type options struct {
	loops  int
	logger any
}

func WithNumEventLoop(n int) Option         { return func(o *options) { o.loops = n } }
func WithSocketRecvBuffer(int) Option       { return func(*options) {} }
func WithSocketSendBuffer(int) Option       { return func(*options) {} }
func WithReusePort(bool) Option             { return func(*options) {} }
func WithLogger(l any) Option               { return func(o *options) { o.logger = l } }
func WithMulticore(bool) Option             { return func(*options) {} }
func WithTCPKeepAlive(time.Duration) Option { return func(*options) {} }

// EventHandler mirrors gnet.EventHandler with this package's Engine.
type EventHandler interface {
	OnBoot(eng Engine) (action Action)
	OnShutdown(eng Engine)
	OnOpen(c Conn) (out []byte, action Action)
	OnClose(c Conn, err error) (action Action)
	OnTraffic(c Conn) (action Action)
	OnTick() (delay time.Duration, action Action)
}

type Engine struct{ e *engine }

func (e Engine) Stop(ctx context.Context) error {
	if e.e == nil {
		return errors.New("vgnet: empty engine")
	}
	e.e.stop()
	select {
	case <-e.e.done:
	case <-ctx.Done():
		return ctx.Err()
	}
	return nil
}

type engine struct {
	h     EventHandler
	l     net.Listener
	loops []*loop
	done  chan struct{}
	once  sync.Once
	stopC chan struct{}
}

type loop struct {
	e      *engine
	mu     sync.Mutex
	tasks  []func()
	note   chan struct{}
	buffer []byte // shared read buffer, reused for every read
	cache  []byte
	conns  map[*conn]struct{}
}

// Debug, when set, traces reads.
var Debug func(kind, link string, n, inBefore, inAfter, bufLeft int)

// ReadBufferCap is the per-read cap of the loop buffer (gnet default 64 KiB).
var ReadBufferCap = 64 * 1024

func (l *loop) post(f func()) {
	l.mu.Lock()
	l.tasks = append(l.tasks, f)
	select {
	case l.note <- struct{}{}:
	default:
	}
	l.mu.Unlock()
}

// WakeDelay, when set, is how long the loop takes to notice posted work (the
// eventfd wake-up and the return from epoll_wait of the real engine): work
// handed over with AsyncWrite / Close runs that much later.
var WakeDelay func() time.Duration

func (l *loop) run(stop <-chan struct{}) {
	for {
		if h := WakeDelay; h != nil {
			l.mu.Lock()
			n := len(l.tasks)
			l.mu.Unlock()
			if n > 0 {
				if d := h(); d > 0 {
					time.Sleep(d)
				}
			}
		}
		l.mu.Lock()
		ts := l.tasks
		l.tasks = nil
		l.mu.Unlock()
		for _, t := range ts {
			t()
		}
		if len(ts) > 0 {
			continue
		}
		select {
		case <-l.note:
		case <-stop:
			// drain remaining tasks once, then close connections.
			l.mu.Lock()
			ts := l.tasks
			l.tasks = nil
			l.mu.Unlock()
			for _, t := range ts {
				t()
			}
			for c := range l.conns {
				l.closeConn(c, nil)
			}
			return
		}
	}
}

// Run starts the engine and blocks until it is stopped.
func Run(h EventHandler, protoAddr string, opts ...Option) error {
	var o options
	for _, f := range opts {
		f(&o)
	}
	network, addr := "tcp", protoAddr
	if i := strings.Index(protoAddr, "://"); i >= 0 {
		network, addr = protoAddr[:i], protoAddr[i+3:]
	}
	ln, err := vnet.Listen(network, addr)
	if err != nil {
		return err
	}
	n := o.loops
	if n < 1 {
		n = 1
	}
	if n > 2 {
		n = 2
	}
	e := &engine{h: h, l: ln, done: make(chan struct{}), stopC: make(chan struct{})}
	for i := 0; i < n; i++ {
		e.loops = append(e.loops, &loop{e: e, note: make(chan struct{}, 1), buffer: make([]byte, ReadBufferCap), conns: map[*conn]struct{}{}})
	}
	if h.OnBoot(Engine{e}) == Shutdown {
		ln.Close()
		return nil
	}
	var wg sync.WaitGroup
	for _, l := range e.loops {
		wg.Add(1)
		go func() { defer wg.Done(); l.run(e.stopC) }()
	}
	go func() {
		i := 0
		for {
			nc, err := ln.Accept()
			if err != nil {
				return
			}
			sc := nc.(*vnet.StreamConn)
			l := e.loops[i%len(e.loops)]
			i++
			l.post(func() { l.open(sc) })
		}
	}()
	<-e.stopC
	ln.Close()
	wg.Wait()
	h.OnShutdown(Engine{e})
	close(e.done)
	return nil
}

func (e *engine) stop() { e.once.Do(func() { close(e.stopC) }) }

type conn struct {
	gnet.Conn // nil: methods not reimplemented panic if the handler starts using them
	l         *loop
	sc        *vnet.StreamConn
	ctx       any
	opened    bool
	buffer    []byte // window into l.buffer during OnTraffic
	inbound   []byte // leftover from earlier reads
	ack       chan struct{}
}

func (l *loop) open(sc *vnet.StreamConn) {
	c := &conn{l: l, sc: sc, opened: true, ack: make(chan struct{}, 1)}
	l.conns[c] = struct{}{}
	out, action := l.e.h.OnOpen(c)
	if len(out) > 0 {
		sc.Write(out)
	}
	if l.handle(c, action) {
		return
	}
	// watcher: level-triggered readiness
	go func() {
		for {
			sc.WaitReadable()
			l.post(func() { l.read(c) })
			<-c.ack
			if !c.opened {
				return
			}
		}
	}()
}

func (l *loop) handle(c *conn, a Action) (closed bool) {
	switch a {
	case Close:
		l.closeConn(c, nil)
		return true
	case Shutdown:
		l.closeConn(c, nil)
		l.e.stop()
		return true
	}
	return false
}

func (l *loop) read(c *conn) {
	defer func() {
		select {
		case c.ack <- struct{}{}:
		default:
		}
	}()
	if !c.opened {
		return
	}
	n, st := c.sc.TryRead(l.buffer)
	switch st {
	case vnet.RdWouldBlock:
		return
	case vnet.RdEOF, vnet.RdReset:
		l.closeConn(c, os.NewSyscallError("read", syscall.ECONNRESET))
		return
	case vnet.RdClosed:
		l.closeConn(c, net.ErrClosed)
		return
	}
	c.buffer = l.buffer[:n]
	before := len(c.inbound)
	action := l.e.h.OnTraffic(c)
	if Debug != nil {
		Debug("gnet_read", c.sc.Link.ID, n, before, len(c.inbound), len(c.buffer))
	}
	if l.handle(c, action) {
		poison(l.buffer[:n])
		return
	}
	c.inbound = append(c.inbound, c.buffer...)
	c.buffer = nil
	// the loop buffer is reused for the next read of any connection.
	poison(l.buffer[:n])
	poison(l.cache)
}

func poison(b []byte) {
	for i := range b {
		b[i] = 0xEE
	}
}

func (l *loop) closeConn(c *conn, err error) {
	if !c.opened {
		return
	}
	c.opened = false
	delete(l.conns, c)
	c.sc.Close()
	l.e.h.OnClose(c, err)
}

func (c *conn) total() int { return len(c.inbound) + len(c.buffer) }

func (c *conn) Next(n int) ([]byte, error) {
	total := c.total()
	if Debug != nil {
		Debug("gnet_next", c.sc.Link.ID, n, len(c.inbound), len(c.buffer), total)
	}
	if n > total {
		return nil, io.ErrShortBuffer
	} else if n <= 0 {
		n = total
	}
	if len(c.inbound) == 0 {
		b := c.buffer[:n]
		c.buffer = c.buffer[n:]
		return b, nil
	}
	// data spanning the inbound buffer is assembled in the loop cache,
	// which is only valid until the next call.
	c.l.cache = c.l.cache[:0]
	k := min(n, len(c.inbound))
	c.l.cache = append(c.l.cache, c.inbound[:k]...)
	c.inbound = c.inbound[k:]
	if rem := n - k; rem > 0 {
		c.l.cache = append(c.l.cache, c.buffer[:rem]...)
		c.buffer = c.buffer[rem:]
	}
	return c.l.cache, nil
}

func (c *conn) Peek(n int) ([]byte, error) {
	total := c.total()
	if n > total {
		return nil, io.ErrShortBuffer
	} else if n <= 0 {
		n = total
	}
	if len(c.inbound) == 0 {
		return c.buffer[:n], nil
	}
	c.l.cache = c.l.cache[:0]
	k := min(n, len(c.inbound))
	c.l.cache = append(c.l.cache, c.inbound[:k]...)
	if rem := n - k; rem > 0 {
		c.l.cache = append(c.l.cache, c.buffer[:rem]...)
	}
	return c.l.cache, nil
}

func (c *conn) Discard(n int) (int, error) {
	total := c.total()
	if total < n || n <= 0 {
		c.inbound, c.buffer = nil, c.buffer[:0]
		return total, nil
	}
	k := min(n, len(c.inbound))
	c.inbound = c.inbound[k:]
	c.buffer = c.buffer[n-k:]
	return n, nil
}

func (c *conn) Read(p []byte) (int, error) {
	n := copy(p, c.inbound)
	c.inbound = c.inbound[n:]
	m := copy(p[n:], c.buffer)
	c.buffer = c.buffer[m:]
	if n+m == 0 && len(p) > 0 {
		return 0, io.ErrShortBuffer
	}
	return n + m, nil
}

func (c *conn) InboundBuffered() int  { return c.total() }
func (c *conn) OutboundBuffered() int { return 0 }

func (c *conn) Write(p []byte) (int, error) {
	if !c.opened {
		return 0, net.ErrClosed
	}
	return c.sc.Write(p)
}

func (c *conn) Flush() error { return nil }

func (c *conn) AsyncWrite(buf []byte, cb AsyncCallback) error {
	c.l.post(func() {
		var err error
		if !c.opened {
			err = net.ErrClosed
		} else {
			_, err = c.sc.Write(buf)
		}
		if cb != nil {
			cb(c, err)
		}
	})
	return nil
}

func (c *conn) Close() error {
	c.l.post(func() { c.l.closeConn(c, nil) })
	return nil
}

func (c *conn) Context() any         { return c.ctx }
func (c *conn) SetContext(v any)     { c.ctx = v }
func (c *conn) LocalAddr() net.Addr  { return c.sc.LocalAddr() }
func (c *conn) RemoteAddr() net.Addr { return c.sc.RemoteAddr() }
