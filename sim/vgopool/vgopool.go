// Package vgopool replaces github.com/IrineSistiana/gopool in
// internal/pool/pool.go: the real pool's reaper goroutine is started at
// package init, outside any synctest bubble, and touches channels created
// inside it, which the runtime forbids.  This is a stub of a dependency.
package vgopool

func Go(fn func()) { go fn() }
