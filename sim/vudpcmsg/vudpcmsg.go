// Package vudpcmsg replaces internal/udpcmsg in app/router/server_udp.go.
// The socket option part (IP_PKTINFO / IPV6_RECVPKTINFO via setsockopt on a
// file descriptor) is replaced by a switch on the simulated socket; building
// and parsing the ancillary data is the repository's own code, and the
// simulated socket uses the same encoders, so the control messages the
// listener sees have the layout a Linux kernel gives them.
package vudpcmsg

import (
	"net/netip"
	"unsafe"

	"golang.org/x/sys/unix"

	"github.com/IrineSistiana/mosproxy/internal/udpcmsg"
	"github.com/IrineSistiana/mosproxy/verifsim/vnet"
)

func init() {
	vnet.MakePktInfo = recvPktInfo
	vnet.ParsePktInfo = sendPktInfo
}

// recvPktInfo is the ancillary data a Linux kernel attaches to a received
// datagram whose destination address was a: IP_PKTINFO with ipi_addr (header
// destination) and ipi_spec_dst (local address) for IPv4, IPV6_PKTINFO for
// IPv6.
func recvPktInfo(a netip.Addr) []byte {
	a = a.Unmap()
	if a.Is4() {
		b := make([]byte, unix.CmsgSpace(unix.SizeofInet4Pktinfo))
		h := (*unix.Cmsghdr)(unsafe.Pointer(&b[0]))
		h.SetLen(unix.CmsgLen(unix.SizeofInet4Pktinfo))
		h.Level, h.Type = unix.IPPROTO_IP, unix.IP_PKTINFO
		m := (*unix.Inet4Pktinfo)(unsafe.Pointer(&b[unix.CmsgLen(0)]))
		m.Ifindex, m.Spec_dst, m.Addr = 2, a.As4(), a.As4()
		return b
	}
	b := make([]byte, unix.CmsgSpace(unix.SizeofInet6Pktinfo))
	h := (*unix.Cmsghdr)(unsafe.Pointer(&b[0]))
	h.SetLen(unix.CmsgLen(unix.SizeofInet6Pktinfo))
	h.Level, h.Type = unix.IPPROTO_IPV6, unix.IPV6_PKTINFO
	m := (*unix.Inet6Pktinfo)(unsafe.Pointer(&b[unix.CmsgLen(0)]))
	m.Addr, m.Ifindex = a.As16(), 2
	return b
}

// sendPktInfo is what sendmsg makes of the ancillary data: the source address
// (ipi_spec_dst, or ipi_addr when that is zero; ipi6_addr).
func sendPktInfo(oob []byte) (netip.Addr, error) {
	for len(oob) > 0 {
		hdr, data, rest, err := unix.ParseOneSocketControlMessage(oob)
		if err != nil {
			return netip.Addr{}, err
		}
		oob = rest
		switch {
		case hdr.Level == unix.IPPROTO_IP && hdr.Type == unix.IP_PKTINFO && len(data) >= unix.SizeofInet4Pktinfo:
			m := (*unix.Inet4Pktinfo)(unsafe.Pointer(&data[0]))
			if m.Spec_dst != [4]byte{} {
				return netip.AddrFrom4(m.Spec_dst), nil
			}
			return netip.AddrFrom4(m.Addr), nil
		case hdr.Level == unix.IPPROTO_IPV6 && hdr.Type == unix.IPV6_PKTINFO && len(data) >= unix.SizeofInet6Pktinfo:
			m := (*unix.Inet6Pktinfo)(unsafe.Pointer(&data[0]))
			return netip.AddrFrom16(m.Addr), nil
		}
	}
	return netip.Addr{}, nil
}

func Ok() bool { return true }

func SetOpt(c *vnet.UDPConn) (bool, error) {
	c.EnablePktInfo()
	la, _ := netip.ParseAddrPort(c.LocalAddr().String())
	return !la.Addr().Is4(), nil
}

func ParseLocalAddr(oob []byte) (netip.Addr, error) { return udpcmsg.ParseLocalAddr(oob) }
func CmsgSize(a netip.Addr) int                     { return udpcmsg.CmsgSize(a) }
func CmsgPktInfo(b []byte, a netip.Addr) []byte     { return udpcmsg.CmsgPktInfo(b, a) }
