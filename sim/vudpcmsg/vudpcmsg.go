// Package vudpcmsg replaces internal/udpcmsg in app/router/server_udp.go:
// the simulated UDP socket has no ancillary data, so udp.multi_routes is
// reported as unsupported (Ok() == false) and the listener takes the plain
// path.  This clause of C01 (control-message parsing) is not reached.
package vudpcmsg

import (
	"errors"
	"net/netip"

	"github.com/IrineSistiana/mosproxy/internal/udpcmsg"
	"github.com/IrineSistiana/mosproxy/verifsim/vnet"
)

func Ok() bool { return false }

func SetOpt(c *vnet.UDPConn) (bool, error) {
	return false, errors.New("vudpcmsg: not supported on simulated sockets")
}

func ParseLocalAddr(oob []byte) (netip.Addr, error) { return udpcmsg.ParseLocalAddr(oob) }
func CmsgSize(a netip.Addr) int                     { return udpcmsg.CmsgSize(a) }
func CmsgPktInfo(b []byte, a netip.Addr) []byte     { return udpcmsg.CmsgPktInfo(b, a) }
