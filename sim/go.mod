module github.com/IrineSistiana/mosproxy/verifsim

go 1.26

require (
	github.com/IrineSistiana/bytespool v0.0.0-20240303022030-cfcf97e7141f
	github.com/IrineSistiana/mosproxy v0.0.0
	github.com/maypok86/otter v1.2.0
	github.com/panjf2000/gnet/v2 v2.3.6
	github.com/quic-go/quic-go v0.42.0
	github.com/rs/zerolog v1.32.0
	golang.org/x/net v0.22.0
	golang.org/x/sys v0.18.0
	gopkg.in/yaml.v3 v3.0.1
)

require (
	github.com/IrineSistiana/connpool v0.0.0-20240326131245-897b52e59cfc // indirect
	github.com/IrineSistiana/gopool v0.0.0-20240118084800-c21759e56cf2 // indirect
	github.com/andybalholm/brotli v1.1.0 // indirect
	github.com/beorn7/perks v1.0.1 // indirect
	github.com/cespare/xxhash/v2 v2.2.0 // indirect
	github.com/dolthub/maphash v0.1.0 // indirect
	github.com/gammazero/deque v0.2.1 // indirect
	github.com/klauspost/compress v1.17.7 // indirect
	github.com/mattn/go-colorable v0.1.13 // indirect
	github.com/mattn/go-isatty v0.0.20 // indirect
	github.com/mitchellh/mapstructure v1.5.0 // indirect
	github.com/prometheus/client_golang v1.19.0 // indirect
	github.com/prometheus/client_model v0.6.0 // indirect
	github.com/prometheus/common v0.51.1 // indirect
	github.com/prometheus/procfs v0.13.0 // indirect
	github.com/puzpuzpuz/xsync/v3 v3.1.0 // indirect
	github.com/quic-go/qpack v0.4.0 // indirect
	github.com/redis/rueidis v1.0.32 // indirect
	github.com/spf13/cobra v1.8.0 // indirect
	github.com/spf13/pflag v1.0.5 // indirect
	github.com/valyala/bytebufferpool v1.0.0 // indirect
	github.com/valyala/fasthttp v1.52.0 // indirect
	go.uber.org/multierr v1.11.0 // indirect
	go.uber.org/zap v1.27.0 // indirect
	golang.org/x/crypto v0.21.0 // indirect
	golang.org/x/exp v0.0.0-20240325151524-a685a6edb6d8 // indirect
	golang.org/x/sync v0.6.0 // indirect
	golang.org/x/text v0.14.0 // indirect
	golang.org/x/time v0.5.0 // indirect
	google.golang.org/protobuf v1.33.0 // indirect
	gopkg.in/natefinch/lumberjack.v2 v2.2.1 // indirect
)

replace github.com/IrineSistiana/mosproxy => /repo

replace github.com/IrineSistiana/connpool => ./third_party/connpool

replace github.com/quic-go/quic-go => ../.build/quic-go

replace github.com/maypok86/otter => ../.build/otter
