// Package sim is the kernel of the deterministic simulator: a discrete-event
// loop that runs as the root goroutine of a testing/synctest bubble, a
// hash-keyed source of per-link randomness, the event log, fault/probe
// counters and the violation sink.
//
// Nothing in this package reads the real clock or a global PRNG.  All
// times are the bubble's fake clock.
package sim

import (
	"container/heap"
	"fmt"
	"hash/fnv"
	"sort"
	"strings"
	"sync"
	"testing/synctest"
	"time"
)

// Violation is one oracle failure.
type Violation struct {
	Property string `json:"property"`
	Clause   string `json:"clause"`
	Detail   string `json:"detail"`
	At       int64  `json:"at_ns"`
	Seq      uint64 `json:"seq"`
}

type event struct {
	at  time.Duration
	seq uint64
	fn  func()
	tag string
}

type evHeap []*event

func (h evHeap) Len() int { return len(h) }
func (h evHeap) Less(i, j int) bool {
	if h[i].at != h[j].at {
		return h[i].at < h[j].at
	}
	return h[i].seq < h[j].seq
}
func (h evHeap) Swap(i, j int) { h[i], h[j] = h[j], h[i] }
func (h *evHeap) Push(x any)   { *h = append(*h, x.(*event)) }
func (h *evHeap) Pop() any {
	old := *h
	n := len(old)
	x := old[n-1]
	old[n-1] = nil
	*h = old[:n-1]
	return x
}

// Sim is one simulated run.
type Sim struct {
	Seed uint64

	origin time.Time

	mu   sync.Mutex // held for instants only, never across a park
	h    evHeap
	seq  uint64
	kick chan struct{}
	stop bool

	logMu    sync.Mutex
	logHash  uint64
	logLines []string
	logCap   int
	nEvents  uint64
	sigHash  uint64 // schedule signature: abstracts payload and absolute times

	statMu sync.Mutex
	faults map[string]int64
	probes map[string]int64

	vioMu      sync.Mutex
	violations []Violation

	MaxEvents uint64
	Exhausted bool

	// Invariant, when set, is run by the scheduler at every quiescent point.
	Invariant func()
}

// S is the current run.  One run per process.
var S *Sim

// Progress, when > 0, prints a line to stderr every that many events (debugging aid).
var Progress uint64

// New creates the run's kernel.  Must be called inside the bubble.
func New(seed uint64, keepLog int) *Sim {
	s := &Sim{
		Seed:      seed,
		origin:    time.Now(),
		kick:      make(chan struct{}, 1),
		faults:    map[string]int64{},
		probes:    map[string]int64{},
		logCap:    keepLog,
		logHash:   1469598103934665603,
		sigHash:   1469598103934665603,
		MaxEvents: 5_000_000,
	}
	S = s
	return s
}

// Now is the fake time since the start of the run.
func (s *Sim) Now() time.Duration { return time.Since(s.origin) }

// Origin is the fake wall time at which the run started.
func (s *Sim) Origin() time.Time { return s.origin }

// After schedules fn on the scheduler goroutine d from now.  fn must not
// block.
func (s *Sim) After(d time.Duration, tag string, fn func()) {
	if d < 0 {
		d = 0
	}
	at := s.Now() + d
	s.mu.Lock()
	s.seq++
	heap.Push(&s.h, &event{at: at, seq: s.seq, fn: fn, tag: tag})
	first := s.h[0].seq == s.seq
	s.mu.Unlock()
	if first {
		select {
		case s.kick <- struct{}{}:
		default:
		}
	}
}

// Stop makes Run return at the next quiescent point.
func (s *Sim) Stop() {
	s.mu.Lock()
	s.stop = true
	s.mu.Unlock()
	select {
	case s.kick <- struct{}{}:
	default:
	}
}

// Run is the scheduler loop.  It returns when Stop was called, when the
// horizon is reached or when the event cap is exhausted.
func (s *Sim) Run(horizon time.Duration) {
	for {
		synctest.Wait()
		if s.Invariant != nil {
			s.Invariant()
		}
		s.mu.Lock()
		if s.stop {
			s.mu.Unlock()
			return
		}
		now := s.Now()
		if now >= horizon {
			s.mu.Unlock()
			return
		}
		var next *event
		if len(s.h) > 0 {
			next = s.h[0]
		}
		if next != nil && next.at <= now {
			heap.Pop(&s.h)
			s.mu.Unlock()
			s.nEvents++
			if Progress > 0 && s.nEvents%Progress == 0 {
				println("PROGRESS events", s.nEvents, "now_ms", int64(now/time.Millisecond), next.tag)
			}
			if s.nEvents > s.MaxEvents {
				s.Exhausted = true
				return
			}
			next.fn()
			continue
		}
		s.mu.Unlock()
		// sleep until the next event (or the horizon); system timers that
		// are due earlier fire on the way and may enqueue earlier events,
		// which kick us.
		wake := horizon
		if next != nil && next.at < wake {
			wake = next.at
		}
		t := time.NewTimer(wake - now)
		select {
		case <-t.C:
		case <-s.kick:
			t.Stop()
		}
	}
}

// Settle advances fake time by d with the scheduler still processing events.
// Only callable from the scheduler's caller after Run returned (e.g. grace).
func (s *Sim) Settle(d time.Duration) {
	s.mu.Lock()
	s.stop = false
	s.mu.Unlock()
	s.Run(s.Now() + d)
}

// ---- randomness -------------------------------------------------------

func mix(x uint64) uint64 {
	x += 0x9e3779b97f4a7c15
	x = (x ^ (x >> 30)) * 0xbf58476d1ce4e5b9
	x = (x ^ (x >> 27)) * 0x94d049bb133111eb
	return x ^ (x >> 31)
}

// HashStr hashes a string.
func HashStr(str string) uint64 {
	h := fnv.New64a()
	h.Write([]byte(str))
	return h.Sum64()
}

// H returns a pseudo-random value that is a pure function of (seed, key, n).
func (s *Sim) H(key string, n uint64) uint64 {
	return mix(mix(s.Seed^HashStr(key)) + n)
}

// Coin is true with probability p, as a pure function of (seed,key,n).
func (s *Sim) Coin(key string, n uint64, p float64) bool {
	if p <= 0 {
		return false
	}
	return float64(s.H(key, n)>>11)/float64(1<<53) < p
}

// IntN returns a value in [0,n).
func (s *Sim) IntN(key string, ctr uint64, n int) int {
	if n <= 1 {
		return 0
	}
	return int(s.H(key, ctr) % uint64(n))
}

// Dur returns a duration in [lo,hi] at nanosecond granularity.
func (s *Sim) Dur(key string, ctr uint64, lo, hi time.Duration) time.Duration {
	if hi <= lo {
		return lo
	}
	return lo + time.Duration(s.H(key, ctr)%uint64(hi-lo+1))
}

// ---- log, counters, violations ---------------------------------------

// Logf appends to the event log.  The full line feeds the determinism hash;
// kind feeds the schedule signature (payload-free).
func (s *Sim) Logf(kind string, format string, args ...any) {
	now := s.Now()
	line := fmt.Sprintf("%12d %s ", int64(now), kind) + fmt.Sprintf(format, args...)
	s.logMu.Lock()
	for i := 0; i < len(line); i++ {
		s.logHash ^= uint64(line[i])
		s.logHash *= 1099511628211
	}
	s.logHash ^= '\n'
	s.logHash *= 1099511628211
	for i := 0; i < len(kind); i++ {
		s.sigHash ^= uint64(kind[i])
		s.sigHash *= 1099511628211
	}
	s.sigHash ^= '|'
	s.sigHash *= 1099511628211
	if s.logCap != 0 && (s.logCap < 0 || len(s.logLines) < s.logCap) {
		s.logLines = append(s.logLines, line)
	}
	s.logMu.Unlock()
}

func (s *Sim) LogHash() uint64    { s.logMu.Lock(); defer s.logMu.Unlock(); return s.logHash }
func (s *Sim) SigHash() uint64    { s.logMu.Lock(); defer s.logMu.Unlock(); return s.sigHash }
func (s *Sim) LogLines() []string { s.logMu.Lock(); defer s.logMu.Unlock(); return s.logLines }
func (s *Sim) Events() uint64     { return s.nEvents }

// Fault counts a fault that actually fired.
func (s *Sim) Fault(kind string) {
	s.statMu.Lock()
	s.faults[kind]++
	s.statMu.Unlock()
}

// Probe counts that a branch of interest was reached.
func (s *Sim) Probe(name string) {
	s.statMu.Lock()
	s.probes[name]++
	s.statMu.Unlock()
}

func (s *Sim) ProbeN(name string, n int64) {
	s.statMu.Lock()
	s.probes[name] += n
	s.statMu.Unlock()
}

func (s *Sim) Faults() map[string]int64 { return copyMap(&s.statMu, s.faults) }
func (s *Sim) Probes() map[string]int64 { return copyMap(&s.statMu, s.probes) }

func copyMap(mu *sync.Mutex, m map[string]int64) map[string]int64 {
	mu.Lock()
	defer mu.Unlock()
	o := make(map[string]int64, len(m))
	for k, v := range m {
		o[k] = v
	}
	return o
}

// Fail records a violation of a property.
func (s *Sim) Fail(property, clause, format string, args ...any) {
	d := fmt.Sprintf(format, args...)
	if len(d) > 2000 {
		d = d[:2000] + "…"
	}
	s.vioMu.Lock()
	s.violations = append(s.violations, Violation{Property: property, Clause: clause, Detail: d, At: int64(s.Now()), Seq: s.nEvents})
	s.vioMu.Unlock()
	s.Logf("VIOLATION", "%s/%s %s", property, clause, d)
}

func (s *Sim) Violations() []Violation {
	s.vioMu.Lock()
	defer s.vioMu.Unlock()
	return append([]Violation(nil), s.violations...)
}

// SortedKeys is a helper for deterministic iteration over string-keyed maps.
func SortedKeys[V any](m map[string]V) []string {
	ks := make([]string, 0, len(m))
	for k := range m {
		ks = append(ks, k)
	}
	sort.Strings(ks)
	return ks
}

// Indent is used by reports.
func Indent(s string) string { return "  " + strings.ReplaceAll(s, "\n", "\n  ") }
