// Package vipv6 replaces golang.org/x/net/ipv6 in app/router/server_udp.go:
// ReadBatch fills the caller's message slice from the simulated socket, with
// a seeded batch size and a seeded coalescing pause so that several datagrams
// land in one batch and the batch-buffer reuse of the listener is exercised.
package vipv6

import (
	"net"
	"net/netip"
	"time"

	"golang.org/x/net/ipv6"

	"github.com/IrineSistiana/mosproxy/verifsim/sim"
	"github.com/IrineSistiana/mosproxy/verifsim/vnet"
)

type Message = ipv6.Message

type PacketConn struct {
	c   *vnet.UDPConn
	ctr uint64
}

func NewPacketConn(c *vnet.UDPConn) *PacketConn { return &PacketConn{c: c} }

// MaxBatch and Coalesce are per-run knobs.
var (
	MaxBatch = 16
	Coalesce = 300 * time.Microsecond
)

func (p *PacketConn) ReadBatch(ms []Message, flags int) (int, error) {
	if len(ms) == 0 {
		return 0, nil
	}
	n, from, to, err := p.c.Recv2(ms[0].Buffers[0])
	if err != nil {
		return 0, err
	}
	ms[0].N, ms[0].NN, ms[0].Addr = n, p.oob(ms[0].OOB, to), net.UDPAddrFromAddrPort(from)
	p.ctr++
	s := sim.S
	key := "batch" + p.c.LocalAddr().String()
	want := 1 + s.IntN(key, p.ctr, min(MaxBatch, len(ms)))
	if want > 1 && Coalesce > 0 {
		time.Sleep(s.Dur(key+"c", p.ctr, 0, Coalesce))
	}
	got := 1
	for got < want {
		n, from, to, ok := p.c.TryRecv2(ms[got].Buffers[0])
		if !ok {
			break
		}
		ms[got].N, ms[got].NN, ms[got].Addr = n, p.oob(ms[got].OOB, to), net.UDPAddrFromAddrPort(from)
		got++
	}
	if got > 1 {
		s.Probe("udp_batch_gt1")
	}
	return got, nil
}

// oob fills the ancillary data of one message (IP_PKTINFO with the address
// the datagram was sent to) when the socket asked for it.
func (p *PacketConn) oob(buf []byte, to netip.Addr) int {
	if !p.c.PktInfo() || vnet.MakePktInfo == nil || !to.IsValid() {
		return 0
	}
	return copy(buf, vnet.MakePktInfo(to))
}
