// Package vbytes replaces github.com/IrineSistiana/bytespool in
// internal/pool/pool.go.  It wraps the real pool with release-time poisoning,
// a quarantine whose contents are verified before a buffer really returns to
// the free list (write-after-release), double-release detection, and a
// get-time fill so that reads of uninitialised pool memory cannot look right
// by accident.  Modes are per-run knobs.
package vbytes

import (
	"fmt"
	"runtime"
	"sync"
	"unsafe"

	"github.com/IrineSistiana/bytespool"
)

const (
	PoisonRelease = 0xDB
)

// Knobs (set before the run starts).
var (
	// GetFill: 0 = leave whatever the pool holds (shipped behaviour),
	// 1 = fill with 0xA5, 2 = fill with a byte that changes on every Get.
	GetFill int
	// Quarantine is the number of released buffers held back (0 = none:
	// buffers are reusable at once, as shipped, but still poisoned).
	Quarantine int
	// NoPoison: released buffers keep their contents (as shipped), so that a
	// reader which runs past the end of what it was given finds the previous
	// owner's data there and not a pattern no parser accepts.  Ownership is
	// still tracked.
	NoPoison bool
	// Enabled turns tracking on.
	Enabled bool
	// PassDoubleRelease: a second release of a buffer is reported and then
	// also handed to the real pool, as the shipped code would do, so that the
	// run shows what the double release leads to (two owners of one array).
	// Off, the second release is reported and dropped.
	PassDoubleRelease bool
	// Report receives C20 findings.
	Report func(clause, detail string)
)

type qent struct {
	b    []byte
	site string
}

var (
	mu      sync.Mutex
	state   = map[*byte]int{} // 1 live, 2 quarantined/released
	relSite = map[*byte]string{}
	q       []qent
	getCtr  uint64

	Gets, Releases, DoubleReleases, WriteAfterRelease, Foreign int64
)

func caller() string {
	var pcs [6]uintptr
	n := runtime.Callers(3, pcs[:])
	fr := runtime.CallersFrames(pcs[:n])
	s := ""
	for i := 0; i < 3; i++ {
		f, more := fr.Next()
		s += fmt.Sprintf("%s:%d ", trim(f.File), f.Line)
		if !more {
			break
		}
	}
	return s
}

func trim(f string) string {
	for i := len(f) - 1; i > 0; i-- {
		if f[i] == '/' {
			for j := i - 1; j > 0; j-- {
				if f[j] == '/' {
					return f[j+1:]
				}
			}
			return f[i+1:]
		}
	}
	return f
}

func Get(size int) []byte {
	b := bytespool.Get(size)
	if !Enabled || cap(b) == 0 {
		return b
	}
	full := b[:cap(b)]
	mu.Lock()
	Gets++
	getCtr++
	switch GetFill {
	case 1:
		for i := range full {
			full[i] = 0xA5
		}
	case 2:
		v := byte(0x80 | (getCtr*37)&0x7f)
		for i := range full {
			full[i] = v
		}
	}
	p := unsafe.SliceData(full)
	aliased := state[p] == 1
	state[p] = 1
	mu.Unlock()
	if aliased && Report != nil {
		Report("aliased-buffer", fmt.Sprintf("the pool handed out an array (cap %d) that is still in use by an earlier owner (after a double release); taken at %s", len(full), caller()))
	}
	return b
}

func Release(b []byte) {
	if !Enabled || cap(b) == 0 || b == nil {
		bytespool.Release(b)
		return
	}
	full := b[:cap(b)]
	p := unsafe.SliceData(full)
	mu.Lock()
	Releases++
	switch state[p] {
	case 2:
		DoubleReleases++
		first := relSite[p]
		mu.Unlock()
		if Report != nil {
			Report("double-release", "buffer released twice: first at "+first+"; again at "+caller())
		}
		if PassDoubleRelease {
			bytespool.Release(b)
		}
		return
	case 0:
		Foreign++
	}
	state[p] = 2
	site := caller()
	relSite[p] = site
	if NoPoison {
		mu.Unlock()
		bytespool.Release(b)
		return
	}
	for i := range full {
		full[i] = PoisonRelease
	}
	if Quarantine <= 0 {
		// state stays "released" until the real pool hands the array out
		// again (Get resets it), so a second release is still recognised.
		mu.Unlock()
		bytespool.Release(b)
		return
	}
	q = append(q, qent{full, site})
	var out []qent
	for len(q) > Quarantine {
		out = append(out, q[0])
		q = q[1:]
	}
	mu.Unlock()
	for _, e := range out {
		retire(e)
	}
}

func retire(e qent) {
	bad := -1
	for i, v := range e.b {
		if v != PoisonRelease {
			bad = i
			break
		}
	}
	mu.Lock()
	if bad >= 0 {
		WriteAfterRelease++
	}
	mu.Unlock()
	if bad >= 0 && Report != nil {
		Report("write-after-release", fmt.Sprintf("buffer (cap %d) released at %s was written at offset %d after release", len(e.b), e.site, bad))
	}
	bytespool.Release(e.b)
}

// Drain verifies everything still in quarantine (end of run).
func Drain() {
	mu.Lock()
	out := q
	q = nil
	mu.Unlock()
	for _, e := range out {
		retire(e)
	}
}
