// Package vredis replaces github.com/redis/rueidis in internal/cache/redis.go.
//
// It is a stub of the client library (only the calls the repository makes)
// joined to a simulated redis server that lives in the same process: a
// key/value map with PX expiry on the run's fake clock and SET NX semantics.
// The link between the two is modelled as a latency drawn per command plus
// availability windows and data-losing restarts taken from the run's plan;
// there is no byte stream (RESP framing and the real client's pipelining are
// NOT exercised).
package vredis

import (
	"context"
	"errors"
	"fmt"
	"net/url"
	"strings"
	"sync"
	"time"
	"unsafe"
)

// ---- server ----

// Window is a period during which the server does not answer.
type Window struct{ From, To time.Duration }

// Config is the simulated server's behaviour.
type Config struct {
	// Now returns the fake time since the start of the run.
	Now func() time.Duration
	// Latency returns the round-trip time of the n-th command.
	Latency func(n uint64) time.Duration
	Down    []Window
	// FlushAt: the server restarts empty at these times.
	FlushAt []time.Duration
	// Log receives one line per command.
	Log func(kind, detail string)
	// GetLatency, when set, replaces Latency for GET commands.
	GetLatency func(n uint64) time.Duration
	// WriteDelay: how long after Do the n-th command is serialised.
	WriteDelay func(n uint64) time.Duration
	// Report receives commands whose key or value is released memory.
	Report func(detail string)
}

type entry struct {
	val      []byte
	expireAt time.Duration // 0 = never
}

// Server is the simulated redis server.
type Server struct {
	mu      sync.Mutex
	cfg     Config
	data    map[string]entry
	flushed int
	n       uint64

	Gets, Hits, Sets, SetsNXRefused, Pings, Refused int64
}

// S is the run's server (nil = no redis in this run: NewClient fails to connect).
var S *Server

// Install creates the run's server.
func Install(cfg Config) *Server {
	S = &Server{cfg: cfg, data: map[string]entry{}}
	return S
}

func Uninstall() { S = nil }

func (s *Server) housekeeping(now time.Duration) {
	for s.flushed < len(s.cfg.FlushAt) && s.cfg.FlushAt[s.flushed] <= now {
		s.data = map[string]entry{}
		s.flushed++
		if s.cfg.Log != nil {
			s.cfg.Log("redis_flush", "")
		}
	}
}

func (s *Server) down(now time.Duration) bool {
	for _, w := range s.cfg.Down {
		if now >= w.From && now < w.To {
			return true
		}
	}
	return false
}

// Snapshot returns the live keys (for oracles).
func (s *Server) Snapshot() map[string][]byte {
	s.mu.Lock()
	defer s.mu.Unlock()
	now := s.cfg.Now()
	out := map[string][]byte{}
	for k, e := range s.data {
		if e.expireAt == 0 || e.expireAt > now {
			out[k] = append([]byte(nil), e.val...)
		}
	}
	return out
}

// ---- client facade ----

// Nil is the error of a GET that finds nothing.
var Nil = errors.New("redis nil message")

var errClosed = errors.New("vredis: client closed")

type ClientOption struct {
	InitAddress []string
}

// ParseURL accepts what the shipped parser accepts for the forms the
// configurations use: redis://, rediss:// and unix://.
func ParseURL(str string) (ClientOption, error) {
	u, err := url.Parse(str)
	if err != nil {
		return ClientOption{}, err
	}
	switch u.Scheme {
	case "redis", "rediss":
		if u.Host == "" {
			return ClientOption{}, fmt.Errorf("redis: invalid URL, no host")
		}
		return ClientOption{InitAddress: []string{u.Host}}, nil
	case "unix":
		return ClientOption{InitAddress: []string{u.Path}}, nil
	}
	return ClientOption{}, fmt.Errorf("redis: invalid URL scheme: %s", u.Scheme)
}

type Client interface {
	B() Cmd
	Do(ctx context.Context, cmd Completed) RedisResult
	Close()
}

type client struct {
	mu     sync.Mutex
	closed bool
}

// NewClient, like the real one, fails when the server cannot be reached.
func NewClient(opt ClientOption) (Client, error) {
	s := S
	if s == nil {
		return nil, errors.New("dial tcp " + fmt.Sprint(opt.InitAddress) + ": connect: connection refused")
	}
	s.mu.Lock()
	now := s.cfg.Now()
	isDown := s.down(now)
	s.mu.Unlock()
	if isDown {
		return nil, errors.New("dial tcp " + fmt.Sprint(opt.InitAddress) + ": i/o timeout")
	}
	c := &client{}
	clientsMu.Lock()
	clients[c] = struct{}{}
	clientsMu.Unlock()
	return c, nil
}

var (
	clientsMu sync.Mutex
	clients   = map[*client]struct{}{}
)

// OpenClients is the number of clients that were created and not closed:
// each stands for a connection (and two goroutines) of the proxy.
func OpenClients() int {
	clientsMu.Lock()
	defer clientsMu.Unlock()
	return len(clients)
}

// BinaryString, like the real one, is a view of b and not a copy: the bytes
// are read when the command is written to the connection.
func BinaryString(b []byte) string {
	if len(b) == 0 {
		return ""
	}
	return unsafe.String(unsafe.SliceData(b), len(b))
}

// Cmd is the fluent command builder (every step of the real builder's type
// chain is the same type here).
type Cmd struct {
	op       string
	key, val string
	nx       bool
	px       int64
}

type Completed struct{ c Cmd }

func (*client) B() Cmd                         { return Cmd{} }
func (c Cmd) Get() Cmd                         { c.op = "GET"; return c }
func (c Cmd) Set() Cmd                         { c.op = "SET"; return c }
func (c Cmd) Ping() Cmd                        { c.op = "PING"; return c }
func (c Cmd) Key(k string) Cmd                 { c.key = k; return c }
func (c Cmd) Value(v string) Cmd               { c.val = v; return c }
func (c Cmd) Nx() Cmd                          { c.nx = true; return c }
func (c Cmd) PxMilliseconds(ms int64) Cmd      { c.px = ms; return c }
func (c Cmd) Build() Completed                 { return Completed{c} }
func (r RedisResult) AsBytes() ([]byte, error) { return r.val, r.err }
func (r RedisResult) Error() error             { return r.err }

type RedisResult struct {
	val []byte
	err error
}

func (c *client) Close() {
	c.mu.Lock()
	c.closed = true
	c.mu.Unlock()
	clientsMu.Lock()
	delete(clients, c)
	clientsMu.Unlock()
}

func (c *client) Do(ctx context.Context, cmd Completed) RedisResult {
	c.mu.Lock()
	closed := c.closed
	c.mu.Unlock()
	if closed {
		return RedisResult{err: errClosed}
	}
	s := S
	if s == nil {
		return RedisResult{err: errors.New("vredis: no server")}
	}
	s.mu.Lock()
	s.n++
	n := s.n
	now := s.cfg.Now()
	isDown := s.down(now)
	lat := time.Duration(0)
	if s.cfg.Latency != nil {
		lat = s.cfg.Latency(n)
	}
	if cmd.c.op == "GET" && s.cfg.GetLatency != nil {
		lat = s.cfg.GetLatency(n)
	}
	s.mu.Unlock()
	if isDown {
		// nothing comes back: the command ends with the caller's deadline
		s.mu.Lock()
		s.Refused++
		s.mu.Unlock()
		<-ctx.Done()
		return RedisResult{err: context.Cause(ctx)}
	}
	// the client's writer serialises the command a moment after Do was called;
	// only then are the bytes behind its key and value read
	if s.cfg.WriteDelay != nil {
		if d := s.cfg.WriteDelay(n); d > 0 && !sleepCtx(ctx, d) {
			return RedisResult{err: context.Cause(ctx)}
		}
	}
	cmd.c.key, cmd.c.val = strings.Clone(cmd.c.key), strings.Clone(cmd.c.val)
	if s.cfg.Report != nil && (cmd.c.op == "SET" || cmd.c.op == "GET") {
		if n := poisonRun(cmd.c.key); n >= 8 || poisonRun(cmd.c.val) >= 16 {
			s.cfg.Report(fmt.Sprintf("%s command built from released memory: key %x value %x", cmd.c.op, trunc(cmd.c.key, 40), trunc(cmd.c.val, 24)))
		}
	}
	// one way there ...
	if !sleepCtx(ctx, lat/2) {
		return RedisResult{err: context.Cause(ctx)}
	}
	res := s.exec(cmd.c)
	// ... and back
	if !sleepCtx(ctx, lat-lat/2) {
		return RedisResult{err: context.Cause(ctx)} // executed, answer lost
	}
	return res
}

func sleepCtx(ctx context.Context, d time.Duration) bool {
	if d <= 0 {
		return ctx.Err() == nil
	}
	t := time.NewTimer(d)
	defer t.Stop()
	select {
	case <-t.C:
		return true
	case <-ctx.Done():
		return false
	}
}

func (s *Server) exec(c Cmd) RedisResult {
	s.mu.Lock()
	defer s.mu.Unlock()
	now := s.cfg.Now()
	s.housekeeping(now)
	if s.down(now) {
		s.Refused++
		return RedisResult{err: errors.New("vredis: connection reset")}
	}
	switch c.op {
	case "PING":
		s.Pings++
		return RedisResult{val: []byte("PONG")}
	case "GET":
		s.Gets++
		e, ok := s.data[c.key]
		if ok && e.expireAt != 0 && e.expireAt <= now {
			delete(s.data, c.key)
			ok = false
		}
		if s.cfg.Log != nil {
			s.cfg.Log("redis_get", fmt.Sprintf("key=%x hit=%v hdr=%x", c.key, ok, e.val[:min(16, len(e.val))]))
		}
		if !ok {
			return RedisResult{err: Nil}
		}
		s.Hits++
		return RedisResult{val: append([]byte(nil), e.val...)}
	case "SET":
		e, ok := s.data[c.key]
		if ok && e.expireAt != 0 && e.expireAt <= now {
			delete(s.data, c.key)
			ok = false
		}
		if c.nx && ok {
			s.SetsNXRefused++
			if s.cfg.Log != nil {
				s.cfg.Log("redis_set", fmt.Sprintf("key=%x nx=true stored=false", c.key))
			}
			// SET NX on an existing key answers a null reply
			return RedisResult{err: Nil}
		}
		ne := entry{val: []byte(c.val)}
		if c.px > 0 {
			ne.expireAt = now + time.Duration(c.px)*time.Millisecond
		}
		s.data[c.key] = ne
		s.Sets++
		if s.cfg.Log != nil {
			s.cfg.Log("redis_set", fmt.Sprintf("key=%x nx=%v px=%d stored=true hdr=%x", c.key, c.nx, c.px, c.val[:min(16, len(c.val))]))
		}
		return RedisResult{val: []byte("OK")}
	}
	return RedisResult{err: fmt.Errorf("vredis: unsupported command %q", c.op)}
}

// poisonRun is the longest run of the buffer pool's release pattern in s.
func poisonRun(s string) int {
	best, cur := 0, 0
	for i := 0; i < len(s); i++ {
		if s[i] == 0xDB {
			cur++
			best = max(best, cur)
		} else {
			cur = 0
		}
	}
	return best
}

func trunc(s string, n int) string {
	if len(s) > n {
		return s[:n]
	}
	return s
}
