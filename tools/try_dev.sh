#!/bin/bash
# try_dev.sh <name> <budget-seconds> <prop>...: like try_mut.sh, but in the
# development copies (/tmp/vw of /verif, /tmp/repo-dev of /repo), so that it
# can run while a matrix is using /repo.
set -u
NAME=$1; BUDGET=$2; shift 2
P=/verif/seeded/$NAME/patch.diff
git -C /tmp/repo-dev diff --quiet || { echo "/tmp/repo-dev is dirty"; exit 2; }
git -C /tmp/repo-dev apply $P || exit 2
trap 'git -C /tmp/repo-dev checkout -- .' EXIT
for prop in "$@"; do
  echo "== $NAME vs $prop (dev)"
  (cd /tmp/vw && REPO=/tmp/repo-dev bin/check $prop -budget $BUDGET -evidence /tmp/ev-dev -replays /tmp/rp-dev 2>&1) | grep -E "^VIOLATION|^  clause|^campaign|^build|^KNOWN" | cut -c1-300 | head -8
done
