#!/usr/bin/env python3
"""Generates /verif/MANIFEST.json from the table below."""
import json

TECH = "deterministic simulation with fault injection (seeded whole-system simulator, synctest fake clock, simulated network, import-facade seams)"

CHECKS = {
 "C01": ("router family, arm garbage: malformed client input on every listener kind and malformed upstream replies; oracle: child process must not die (panic/fatal = violation with stack); valid probe queries on fresh transports of every listener (single or bursts of up to 12 with segmented frames) 1.5 s and 10 s after the last garbage input are answered with their own id and question; a run whose SIGQUIT dump shows a goroutine spinning in repository code is a hang; in 40 % of runs the buffer-pool facade lets a detected double release through to the real pool so that its consequences show; http listeners also get raw requests a conforming client would not send (POST without body, Content-Length lies, chunked bodies, broken header lines)",
         "gnet engine is a stub with ported buffer semantics; udp.multi_routes control messages are always well-formed; redis replies are not byte strings here (client library stubbed)"),
 "C02": ("router family: answers with binary labels, shared suffixes, SRV/SOA/MX/unknown types, compression layouts; client-visible response is decoded by an independent strict codec (refdns) and compared record by record with the regenerated upstream original (names octet-exact, RDATA names decompressed, unknown types byte for byte, TTL on the fresh path, header bits AA/AD/CD/rcode); a response an independent decoder rejects is a codec failure; arm garbage mixes cut-short upstream answers and malformed queries with the valid traffic; answer shape with names first occurring beyond offset 16383; arm codec drives dnsmsg.UnpackMsg / Msg.Pack (no size limit, both compression modes) directly with a history of generated messages (every shape, OPT at any position, cut-short ones in between, several decoded messages alive at a time) under the pool facades: re-encoding decoded by the independent codec equals the original record by record in order, uncompressed length == Len()",
         "the comparison base is the harness's own generator + codec; the 'uncompressed encoding has exactly the advertised length' clause is only seen indirectly (cache stores failing)"),
 "C03": ("router family, arms clean/faults: every decodable QR=0 query on udp/tcp/gnet/tls/http/fasthttp/https listeners x upstream outcomes (reply, error rcodes, garbage, FIN/RST, silence, loss/dup on datagram links): exactly one response within 6 s + 1 s, ID/opcode/QR/RA/RD/question, NOTIMP / REFUSED (reference rule evaluation) / SERVFAIL classes; answers around 64 KiB (a udp reply must fit a datagram); udp multi_routes sockets: a query to another local address of the socket is answered from that address (IP_PKTINFO ancillary data on the simulated socket)",
         "fake upstreams echo the question they received; client links fault-free; limiter off; idle_timeout >= 8 s"),
 "C04": ("router family, high concurrency, yields at lock sites, GC events, tiny/ample/no cache, UDP batches: every record of every response must come from the answer the selected upstream generated for that response's own (token, class, type) and serial (metadata record + upstream log); arm prefetch (background refreshes next to unrelated traffic), arm late (replies after the transports' 6 s I/O limit on connections that are then reused); repeats of a name also ask the neighbouring type (T xor 1) and other classes; records generated for another (class, type) are a violation whatever the question section says",
         "interleavings explored at lock boundaries, blocking operations and network events only"),
 "C05": ("transport family over udp / tcp+pipeline / tls+pipeline: concurrent exchanges with deadlines and cancellations; server replies out of order, delayed, duplicated, with wrong wire id, silent; datagram loss/dup; oracle: returned reply was sent on the exchange's own (connection, wire id), caller id restored, no reply returned twice, wire ids never reused per connection; rare arm (every 1000th run) drives >65536 exchanges through one connection, the last 300 and the overflow in waves of 24 concurrent callers with lock-site yields (retire, never wrap, also when several callers hold the connection at its end of life)",
         "TLS hides wire ids from the network, the fake server's log is used there"),
 "C06": ("transport family over tcp / tls / TCP leg of udp: callers give up before/during/after the reply, server delays, splits, aborts, idle time-outs 50 ms..10 s, yields and stalls at the transport's lock sites; server-side invariant: no query arrives on a connection with an unanswered earlier query; every returned message is the reply to the caller's own question with its id",
         "server sends exactly one reply per query (precondition of the statement)"),
 "C07": ("router family with memory cache, ip-marker groups, timed repeats of few keys varying case/class/type/client group: a cache hit must be for the same question and group, equal the first relay apart from TTL/ID; converse with ample capacity: no request-path exchange while >2.1 s of the reference lifetime remain; a response with records for another question given without an upstream exchange for the own question is a stored response under the wrong key; arms prefetch and redis (second level on a simulated redis server, small memory cache in half the runs: promotion path); a hit must not be truncated when the first relay of that answer was complete and the client's limit exceeds its size plus its largest record (answers near 64 KiB)",
         "redis is reached through a stub of the client library (no RESP framing); group attribution of a fetch uses the requests pending at that instant"),
 "C08": ("same family with edge TTL vectors (0, 1, 2^32-1), rcodes, TC answers, max TTL, queries around expiry: sound inequalities on every hit (TTL <= max(1, upstream TTL - whole seconds certainly elapsed)), nothing served after lifetime + 2 s, TC answers never served from cache, a negative answer never displaces a live positive entry; arm redis (entries promoted from the second level keep their original expiry); record-less answers (empty NOERROR, NODATA without SOA) obey the default lifetime; max TTL caps the whole lifetime",
         "redis client library stubbed; lifetime policy is the one in the statement; latencies bound the unknown store instant"),
 "C09": ("router family with answers from 400 bytes to >64 KiB, OPT at any position, clients with advertised sizes 0..65535 and stream/HTTP clients: size limit, strict decode (counts = records present, no trailing bytes), TC iff records omitted, OPT kept, kept records an order-preserving subsequence, nothing omitted when the uncompressed size fits; answer shape 'tight' (small records of every interpreted type with names that share nothing: the limit falls on any record type without compression slack); answers within a few hundred octets of 65535 on stream listeners; arm codec: Msg.Pack with a size limit called directly — at Len() nothing is cut, at Len()-1 and seeded smaller limits the result decodes strictly, has TC, respects the limit and keeps a prefix of the records",
         "limit 0 and 'limit without compression' are reached only by the codec arm"),
 "C10": ("router family with generated rule lists (reverse, reject, forward, no action, shared domain sets): reference first-match evaluation vs which fake upstream saw the token (never another one, also not by prefetch), forwarded question (one question, lower-cased, same class/type, RD=1), client rcode for reject/refused; arm startfault: unknown/duplicate tags, missing tag/addr must make run() fail and leave nothing open; arm cli: the real `router -c <file>` command runs inside the bubble on the YAML rendering of a generated configuration with an unknown key at a seeded mapping node and must exit with the strict decoder's fatal error (control runs without the key must start); every question seen by an upstream must be one some client asked; scheduling points inserted into the rule evaluation and the domain matcher; names use the whole alphabet including its ends and their ASCII neighbours; empty domain-set files and rules whose set matches nothing",
         "the cli arm's rejection verdict is written before the command runs and accepted only together with exit status 1 and the decoder's message on stderr"),
 "C11": ("same runs as C10 with the domain-set generator in front: full:/domain:/bare/regexp: entries, parents/children/duplicates in every order across several files, comments, case; routing outcome must equal the declarative set-based reference; labels with the ends of the alphabet, their ASCII neighbours, '_', '*', space and control octets; regexp entries addressing escaped octets (\\DDD) and label lengths",
         "entry files cannot carry every octet (no escapes in the format); regexp entries are generated lower-case"),
 "C12": ("router family: clients with/without OPT, options (cookie, ECS, padding), DO/version bits, odd sizes; upstream replies with OPT and options; ECS on/off; v4, v6, v4-mapped, unknown (abstract unix / header-supplied) client addresses; oracle at the client (OPT iff query had one, no options, TTL field 0, constant size) and at the fake upstream (exactly one OPT, only ECS, exact /24 or /56 prefix of the address the network knows); arm overload: refusals made by a listener itself; arm prefetch: the background refresh's ECS is the triggering client's prefix",
         ""),
 "C13": ("router family on tcp/tls/gnet listeners: k=1..40 pipelined frames under seeded segmentation (byte-at-a-time, cuts inside the prefix, coalesced writes), handlers finishing out of order; the client re-parses its inbound byte stream (prefix = body length, every body decodes, id multiset equality); arm overload: burst beyond max_concurrent_queries must be answered REFUSED; answers around the 65535-octet frame limit (every frame's prefix equals its body length; over-long answers arrive truncated, never as a wrapped length)",
         "gnet engine stub (buffer semantics ported from gnet v2.3.6); TLS records are real"),
 "C14": ("transport family over every simulated upstream kind: refuse / black-hole / silent / half frame / garbage / FIN / RST / partitions / server crash+restart / idle-connection closes, placed by the seed: every ExchangeContext returns by its deadline + 1 s; against a healthy reachable server it succeeds (stale pooled connections are retried); waiters on a reset multiplexed connection leave it within 1 s; dial count bounded; a call never returns a message together with an error; rare arm: >65536 exchanges through one connection, every exchange of the concurrent tail must succeed against the healthy server; DoQ / DoH3 servers with stream limits of 1..4 (callers queue for streams; cancelled exchanges must give their stream back)",
         "quic-go runs as a patched copy (fake-clock fixes, DESIGN.md 2.2)"),
 "C15": ("arm unit: the exported ClientLimiter driven under the fake clock with generated (address, time, cost) histories and configurations (limit, burst, masks present/omitted/out of range) against a textbook token bucket per subnet as the statement defines it (decisions compared except within 1e-6 tokens of the threshold; bound burst + rate x window on the real decisions); arm e2e: router with limiter, heavy and light subnets on udp/tcp/gnet/tls/http(s): admitted queries per subnet obey the bound, refusals are REFUSED / 503 and never forwarded, a subnet far inside its own budget is never refused (neither by REFUSED / 503 nor by its connection being closed at accept); quic listener included; one query per connection or many queries behind one accepted stream / QUIC connection",
         "idle-bucket garbage collection (entries dropped after a minute) is part of what the unit arm compares"),
 "C16": ("transport family on udp:// with UDP and TCP fake servers on one address: TC on the UDP reply => TCP server sees the question and the caller gets exactly the TCP outcome; no TC => UDP reply returned, TCP untouched; the TCP server closes idle connections between truncated replies (stale pooled connection on the TCP leg); a message returned together with an error is a violation; a returned message must be the answer to the call's own question (TCP-leg replies later than the 6 s I/O limit are generated); partial TC replies (records present and TC set) must fall back too",
         ""),
 "C17": ("arm addr (fault_enumeration-like: the product scheme (10, incl. quic and h3) x host form x port x dial_addr form, 800 combinations, is covered completely by a batch, 24 consecutive combinations per run; udp cases get a second exchange with a truncated UDP reply so that the TCP leg's dial target is checked): dial target recorded by the network facade and SNI/Host seen by a fake server vs values derived from the structured case; arm auth: 180 combinations of upstream kind x server certificate (good, wrong name, other CA, expired, not yet valid, self-signed) x option (ca, none, skip): success iff the reference predicate, and no query reaches an unauthenticated peer; arm mtls: tls/https listeners with verify_client_cert vs clients with acceptable / foreign / no certificate, clients that never speak TLS, and clients that continue in plain DNS-over-TCP on the same connection after the handshake was refused; the process trust store holds exactly one root (the PKI's other CA), so falling back to system roots instead of the configured CA is visible in both directions",
         "certificates use a fixed epoch matching the bubble's clock"),
 "C18": ("arms latedial (reuse / pipeline / quic transports over an injected dialer whose dial completes after Close), xclose (Close of every upstream kind at a seeded instant, twice, racing dials/exchanges/idle timers), rclose (router close during traffic), startfault (address in use, bad PEM, unknown protocol/scheme, missing file, metrics endpoint address in use; with and without a cache configured): Close returns within 1 s fake, later exchanges fail within 1 s, exchanges in flight return within 1 s of Close (not at their own deadline), after 150 s grace the simulated network shows no socket owned by the proxy, run() returns an error and leaves nothing open, no panic",
         "arm latedial builds the exported transports directly over an injected dialer that ignores its context (connections whose dial completes after Close must be closed)"),
 "C20": ("arms router / xport / prefetch with yields, stalls, GC events and failing upstreams: (1) a third of the runs of every arm use a -race build of the simulator: a DATA RACE report with a repository frame is a violation; (2) the buffer pool facade poisons on release, quarantines and verifies buffers (write-after-release, double release, aliased hand-out); (3) the object pools of dnsmsg and router (messages, records, questions, request contexts) are a facade that overwrites released objects with recognisable values, detects a second Put and a write while free, and restores them on Get; fake upstreams and the client-side oracle flag either poison pattern on the wire (read-after-release)",
         "race builds randomise scheduling, their replay is best effort; interleavings at lock boundaries / blocking points only"),
 "C19": ("router family, ample cache, lifetimes 4..600 s, bursts of hits in the last quarter from several groups, slow/failing/negative refreshes: hits are answered at once, at most one exchange in flight per (question, group) while the entry is live (for keys whose exchanges all succeed), a completed positive refresh is visible to later hits, the old entry stays usable after a failed refresh (a negative answer to a background refresh must not replace the live entry); arm prefetch adds unrelated traffic right after the hits",
         "the fake upstream cannot tell a transport-level re-send from a refresh, hence the restriction of the single-flight invariant"),
}

LEVEL_TEXT = "seeded exploration: many short whole-system simulated runs (one OS process and one synctest bubble each) of the real code under a simulated network, fake clock and seeded lock-site yields; oracles are sound per-response / per-history checks against small reference models; a clean batch is evidence, not proof. "

def main():
    props = [json.loads(l) for l in open('/verif/properties.jsonl')]
    checks = []
    na = []
    for p in props:
        pid = p['id']
        if pid in CHECKS:
            what, note = CHECKS[pid]
            checks.append({
                "property_id": pid,
                "quick_cmd": f"/verif/bin/check {pid} --tier quick",
                "thorough_cmd": f"/verif/bin/check {pid} --tier thorough",
                "evidence_file": f"/verif/evidence/{pid}.json",
                "replay_cmd_template": f"/verif/bin/check {pid} --replay {{path}}",
                "engine": "mosim",
                "level_claimed": {"category": "exploration", "text": LEVEL_TEXT + what, "design_ref": f"DESIGN.md section 6 ({pid})"},
                "level_note": ("trusted base: harness generator/codec/oracles, synctest fake clock, simulated network error model (DESIGN.md 3.2). " + note).strip(),
                "technique": TECH,
            })
        else:
            na.append({"property_id": pid, "reason": NA.get(pid, "check not built yet (work in progress)")})
    m = {
        "version": 1,
        "setup_cmd": "/verif/bin/setup",
        "hooks": {
            "guard": "verif",
            "enable": "no tagged source in /repo: seams are installed at build time by /verif/bin/build (go1.26.8 test -c -overlay <generated overlay>: import facades for net/sync/ipv6/gnet/bytespool/gopool, export shim, runtime determinism patches)",
            "baseline_off_cmd": "cd /repo && go test -vet=off -count=1 ./...",
            "source_commits": [],
            "add_only": True,
        },
        "engines": [{"name": "mosim", "path": "/verif/sim", "serves_properties": sorted(CHECKS), "kind_free_text": "whole-system deterministic simulator for mosproxy (Go, testing/synctest + build overlay), campaign driver with minimiser and replay"}],
        "checks": checks,
        "not_applicable": na,
        "notes": "Genuine defects found and repaired are listed in /verif/known_findings.json (status fixed) and DESIGN.md section 8.",
    }
    if not na:
        del m["not_applicable"]
    json.dump(m, open('/verif/MANIFEST.json', 'w'), indent=1)
    print(len(checks), "checks,", len(na), "not claimed")

NA = {}

if __name__ == '__main__':
    main()
