#!/bin/bash
# reconfirm.sh <name>: does a seeded change still apply to /repo HEAD, and does
# its demonstration still pass without it and fail with it?  (After a fix:
# commit a change may have been neutralised or need a rebase.)
set -u
NAME=$1
export GOFLAGS=-mod=mod GOPROXY=off GOSUMDB=off
D=/verif/seeded/$NAME
S=/tmp/reconf-$NAME
git -C /repo worktree remove --force $S >/dev/null 2>&1
git -C /repo worktree add -q $S HEAD || { echo "$NAME ERROR worktree"; exit 2; }
trap 'git -C /repo worktree remove --force $S >/dev/null 2>&1' EXIT
cd $S
if ! git apply --check $D/patch.diff 2>/dev/null; then echo "$NAME NOAPPLY"; exit 0; fi
CMD=$(python3 -c "import json,re;c=json.load(open('$D/meta.json'))['demo_cmd'];print(re.sub(r'cd \S+', 'cd $S', c, count=1))")
(cd $D/demo && find . -type f) | while read f; do mkdir -p $(dirname $f); cp $D/demo/$f $f; done
if ! bash -c "$CMD" > /root/reconf/$NAME.orig.log 2>&1; then echo "$NAME DEMO-FAILS-ON-ORIGINAL"; exit 0; fi
git apply $D/patch.diff
if bash -c "$CMD" > /root/reconf/$NAME.mut.log 2>&1; then echo "$NAME NEUTRALISED (demo passes with the change)"; exit 0; fi
echo "$NAME LIVE"
