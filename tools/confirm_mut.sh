#!/bin/bash
# confirm_mut.sh <name> <agent-worktree>
# Confirms a seeded change in a fresh scratch worktree: builds, existing suite
# passes with it, the demonstration fails with it and passes without it.
# On success copies patch.diff, demo files and meta.json to /verif/seeded/<name>/.
set -u
NAME=$1; SRC=$2
export GOFLAGS=-mod=mod GOPROXY=off GOSUMDB=off
S=/tmp/confirm-$NAME
git -C /repo worktree remove --force $S >/dev/null 2>&1
git -C /repo worktree add -q $S HEAD || exit 2
cleanup() { git -C /repo worktree remove --force $S >/dev/null 2>&1; }
trap cleanup EXIT
[ -f $SRC/patch.diff ] || { echo "no patch.diff"; exit 2; }
cd $S
git apply --check $SRC/patch.diff || { echo "patch does not apply to HEAD"; exit 1; }
# copy demo files (untracked files of the agent worktree that are tests / demo programs, not under demo/)
DEMOS=$(cd $SRC && git ls-files --others --exclude-standard | grep -v '^demo/' | grep -E '(_test\.go|\.go)$' | grep -v '^patch' )
CMD=$(python3 -c "import json;print(json.load(open('$SRC/meta.json'))['demo_cmd'])" | sed "s#$SRC#$S#g")
echo "demo files: $DEMOS"; echo "demo cmd: $CMD"
# 1. original code + demo: must pass
for f in $DEMOS; do mkdir -p $(dirname $f); cp $SRC/$f $f; done
if ! bash -c "$CMD" > /tmp/confirm-$NAME.orig.log 2>&1; then echo "FAIL: demo does not pass on original code"; tail -20 /tmp/confirm-$NAME.orig.log; exit 1; fi
echo "ok: demo passes on original"
# 2. patched: build, demo must fail
git apply $SRC/patch.diff
go build ./... 2>&1 | grep -v conda | head -5
if bash -c "$CMD" > /tmp/confirm-$NAME.mut.log 2>&1; then echo "FAIL: demo passes with the change"; exit 1; fi
echo "ok: demo fails with the change"
# 3. patched, existing suite (without demo files): must pass (known flaky test excluded)
for f in $DEMOS; do rm -f $f; done
OUT=$(go test -vet=off -count=1 ./... 2>&1 | grep -v conda)
if echo "$OUT" | grep -E "^(--- FAIL|FAIL)" | grep -v "Test_ReuseConnTransport\b" | grep -v "^FAIL$" | grep -v "internal/upstream/transport" | grep -q .; then echo "FAIL: existing suite fails"; echo "$OUT" | grep -E "FAIL" | head; exit 1; fi
if echo "$OUT" | grep -E "^--- FAIL" | grep -v "Test_ReuseConnTransport " | grep -q .; then echo "FAIL: existing suite fails (other test)"; echo "$OUT" | grep FAIL | head; exit 1; fi
echo "ok: existing suite passes with the change"
D=/verif/seeded/$NAME
mkdir -p $D/demo
cp $SRC/patch.diff $D/patch.diff
for f in $DEMOS; do mkdir -p $D/demo/$(dirname $f); cp $SRC/$f $D/demo/$f; done
python3 - <<PY
import json
m=json.load(open('$SRC/meta.json'))
m['confirmed']={'demo_passes_on_original':True,'demo_fails_with_change':True,'suite_passes_with_change':True,'how':'tools/confirm_mut.sh in a fresh scratch worktree of /repo HEAD'}
m['demo_files']="""$DEMOS""".split()
json.dump(m,open('$D/meta.json','w'),indent=1)
PY
echo "CONFIRMED $NAME"
