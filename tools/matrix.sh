#!/bin/bash
# matrix.sh [budget] [names...] : runs every seeded change against the check
# of its own property (from meta.json) and prints one line per change.
BUDGET=${1:-60}; shift
NAMES="$@"
[ -z "$NAMES" ] && NAMES=$(ls /verif/seeded)
for n in $NAMES; do
  prop=${n%%-*}
  if grep -q '"neutralised"' /verif/seeded/$n/meta.json; then echo "$n NEUTRALISED (see meta.json)"; continue; fi
  out=$(NOREBUILD=1 /verif/tools/try_mut.sh $n $BUDGET $prop 2>&1)
  if echo "$out" | grep -q "^VIOLATION property=$prop"; then
    echo "$n CAUGHT $(echo "$out" | grep -m1 clause= | cut -c1-120)"
  else
    echo "$n MISSED $(echo "$out" | tail -2 | tr '\n' ' ' | cut -c1-200)"
  fi
done
/verif/bin/build >/dev/null 2>&1
