#!/bin/bash
# try_mut.sh <name> <budget-seconds> <prop> [<prop>...]
# Applies /verif/seeded/<name>/patch.diff to /repo, runs the checks, reverts.
set -u
NAME=$1; BUDGET=$2; shift 2
P=/verif/seeded/$NAME/patch.diff
git -C /repo diff --quiet || { echo "/repo is dirty"; exit 2; }
git -C /repo apply $P || exit 2
trap 'git -C /repo checkout -- . ; [ -n "${NOREBUILD:-}" ] || /verif/bin/build >/dev/null 2>&1' EXIT
for prop in "$@"; do
  echo "== $NAME vs $prop"
  /verif/bin/check $prop -budget $BUDGET -evidence /tmp/ev-mut -replays /tmp/rp-mut 2>&1 | grep -E "^VIOLATION|^  clause|^campaign|^build|^KNOWN" | cut -c1-300 | head -8
done
